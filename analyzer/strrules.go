package main

import (
	"fmt"
	"go/token"
	"go/types"

	"golang.org/x/tools/go/ssa"
)

// Rules that guard the repaired shapes of the string library (F36–F43).

// ruleErrSense: the number parseNumber returns is meaningful only when its error is nil. Every use of
// the first result lies on a path that has tested err == nil (Engler: a checked belief must hold on
// all paths) — LString.Format tested it in the wrong sense (F39).
func ruleErrSense(c *Ctx) {
	const R = "R16-errsense"
	c.floor(R, 3)
	p := c.P
	pn := c.need(R, "lua", "parseNumber")
	if pn == nil {
		return
	}
	for _, fn := range p.srcFuncs {
		if fn.Pkg == nil || fn.Pkg.Pkg.Path() != luaPath {
			continue
		}
		calls := callsTo(fn, pn)
		if len(calls) == 0 {
			continue
		}
		g := p.G(fn)
		for i, cl := range calls {
			var val, errv *ssa.Extract
			for _, r := range *cl.Referrers() {
				if ex, ok := r.(*ssa.Extract); ok {
					if ex.Index == 0 {
						val = ex
					} else {
						errv = ex
					}
				}
			}
			key := fmt.Sprintf("%s:parseNumber#%d", fname(fn), i+1)
			if val == nil {
				continue
			}
			c.Sites++
			if errv == nil {
				c.bad(R, key, p.ipos(cl), fname(fn)+" uses the number parseNumber returns without looking at its error: a malformed numeral is read as 0")
				continue
			}
			var badUse ssa.Instruction
			for _, u := range *val.Referrers() {
				if ret, isRet := u.(*ssa.Return); isRet {
					both := false
					for _, rv := range ret.Results {
						if rv == ssa.Value(errv) {
							both = true
						}
					}
					if both {
						continue // handing (value, err) on to the caller
					}
				}
				if ph, isPhi := u.(*ssa.Phi); isPhi {
					// the value flows on through a phi: the edge it arrives on must carry err == nil
					okEdge := false
					for k, e := range ph.Edges {
						if e == ssa.Value(val) {
							for _, cd := range g.CondsOnEdge(ph.Block().Preds[k], ph.Block()) {
								if errIsNil(cd, errv) {
									okEdge = true
								}
							}
						}
					}
					if !okEdge {
						badUse = u
					}
					continue
				}
				ok := false
				for _, cd := range g.CondsAtInstr(u) {
					if errIsNil(cd, errv) {
						ok = true
					}
				}
				if !ok {
					badUse = u
				}
			}
			pos := p.ipos(cl)
			if badUse != nil {
				pos = p.ipos(badUse)
			}
			c.check(badUse == nil, R, key, pos, "the number is used only where err == nil has been established", fname(fn)+" uses the number returned by parseNumber on a path where its error has not been found nil (the test is missing or inverted): string.format(\"%+d\", \"10\") prints the text unconverted and a non-numeric string prints 0")
		}
	}
}

func errIsNil(cd Cond, errv ssa.Value) bool {
	b, ok := cd.V.(*ssa.BinOp)
	if !ok {
		return false
	}
	var other ssa.Value
	switch {
	case b.X == errv:
		other = b.Y
	case b.Y == errv:
		other = b.X
	default:
		return false
	}
	k, isC := other.(*ssa.Const)
	if !isC || !k.IsNil() {
		return false
	}
	return (eqHolds(b, cd)) || (b.Op == token.NEQ && !cd.Sense)
}

// ruleStrDefaults: positions of the string functions. (a) string.byte's end position defaults to its
// start position (one byte), so the default handed to OptInt(3, …) is computed from the first position,
// not a constant (F36). (b) luaIndex2StringIndex clamps every position to len(str), for start and end
// positions alike: the upper clamp does not depend on the 'start' flag (F37: str[init:] panicked).
func ruleStrDefaults(c *Ctx) {
	const R = "R15-positions"
	c.floor(R, 2)
	p := c.P
	optInt := p.Fn("lua", "(*LState).OptInt")
	if fn := c.need(R, "lua", "strByte"); fn != nil && optInt != nil {
		var second, third *ssa.Call
		for _, cl := range callsTo(fn, optInt) {
			if k, ok := constInt(cl.Call.Args[1]); ok {
				switch k {
				case 2:
					second = cl
				case 3:
					third = cl
				}
			}
		}
		okc := false
		if second != nil && third != nil {
			_, isConst := constInt(third.Call.Args[2])
			okc = !isConst && dependsOnValue(third.Call.Args[2], second, 0)
		}
		pos := p.pos(fn.Pos())
		if third != nil {
			pos = p.ipos(third)
		}
		c.check(okc, R, "strByte:end-defaults-to-start", pos, "OptInt(3, d): d is derived from the start position", "string.byte's end position does not default to its start position: s:byte() and s:byte(i) return every byte up to the end of the string instead of one")
	}
	if fn := c.need(R, "lua", "luaIndex2StringIndex"); fn != nil {
		g := p.G(fn)
		flags := paramsOfType(fn, "bool")
		found, okc := false, true
		allInstrs(fn, func(in ssa.Instruction) {
			b, ok := in.(*ssa.BinOp)
			if !ok || b.Op != token.GTR {
				return
			}
			cl, ok := stripConv(b.Y).(*ssa.Call)
			if !ok {
				return
			}
			if bi, ok := cl.Call.Value.(*ssa.Builtin); !ok || bi.Name() != "len" {
				return
			}
			found = true
			// the comparison i > len(str) must be evaluated whatever the flag says
			for _, cd := range g.CondsAtInstr(in) {
				for _, f := range flags {
					if cd.V == ssa.Value(f) {
						okc = false
					}
					if u, ok := cd.V.(*ssa.UnOp); ok && u.X == ssa.Value(f) {
						okc = false
					}
				}
			}
			// …and not be and-ed with the flag in the same condition
			for _, r := range *b.Referrers() {
				if _, isIf := r.(*ssa.If); !isIf {
					if _, isPhi := r.(*ssa.Phi); isPhi {
						okc = false // part of a short-circuit with something else
					}
				}
			}
		})
		c.check(found && okc, R, "luaIndex2StringIndex:upper-clamp-unconditional", p.pos(fn.Pos()), "every position is clamped to len(str)", "luaIndex2StringIndex clamps a position to the length of the string only for end positions: a start position beyond the end reaches str[init:] (plain find panics with 'slice bounds out of range'; find(\"\", 10) and match(\"\", 10) give wrong answers)")
	}
}

func dependsOnValue(v ssa.Value, target ssa.Value, d int) bool {
	if v == target {
		return true
	}
	if d > 8 {
		return false
	}
	in, ok := v.(ssa.Instruction)
	if !ok {
		return false
	}
	for _, op := range in.Operands(nil) {
		if *op != nil && dependsOnValue(*op, target, d+1) {
			return true
		}
	}
	return false
}

// ruleMatchIndexing: the code that turns match data into results indexes two run-time sized things —
// the subject (src[a:b]) in the matcher's back-reference instruction and the match list in the gmatch
// iterator. Both must be guarded on the path: C14 demands that no pattern or subject makes the matcher
// panic (F41, F43).
func ruleMatchIndexing(c *Ctx) {
	const R = "R14-index"
	c.floor(R, 2)
	p := c.P
	if fn := c.need(R, "pm", "recursiveVM"); fn != nil {
		g := p.G(fn)
		src := fn.Params[0]
		n := 0
		allInstrs(fn, func(in ssa.Instruction) {
			sl, ok := in.(*ssa.Slice)
			if !ok || sl.X != ssa.Value(src) || sl.High == nil || !g.Live(in) {
				return
			}
			n++
			c.Sites++
			// hi <= len(src) and lo <= hi on the path
			hiOK, orderOK := false, sl.Low == nil
			for _, cd := range g.CondsAtInstr(in) {
				b, ok := cd.V.(*ssa.BinOp)
				if !ok {
					continue
				}
				op := b.Op
				if !cd.Sense {
					op = negate(op)
				}
				x, y := stripConv(b.X), stripConv(b.Y)
				isLen := func(v ssa.Value) bool {
					cl, ok := v.(*ssa.Call)
					if !ok {
						return false
					}
					bi, ok := cl.Call.Value.(*ssa.Builtin)
					return ok && bi.Name() == "len" && cl.Call.Args[0] == ssa.Value(src)
				}
				same := func(a, b ssa.Value) bool { return a == b || vkey(a) == vkey(b) }
				if same(x, stripConv(sl.High)) && isLen(y) && (op == token.LEQ || op == token.LSS) {
					hiOK = true
				}
				if sl.Low != nil && same(x, stripConv(sl.High)) && same(y, stripConv(sl.Low)) && (op == token.GEQ || op == token.GTR) {
					orderOK = true
				}
				if sl.Low != nil && same(x, stripConv(sl.Low)) && same(y, stripConv(sl.High)) && (op == token.LEQ || op == token.LSS) {
					orderOK = true
				}
			}
			c.check(hiOK && orderOK, R, fmt.Sprintf("recursiveVM:src-slice#%d", n), p.ipos(in), "lo <= hi <= len(src) is established on the path", "the matcher slices the subject with bounds taken from capture records without checking lo <= hi <= len(src): a back-reference to a capture that is still open (or to a position capture) panics with 'slice bounds out of range' instead of failing the match or raising a pattern error")
		})
		if n == 0 {
			c.ok(R, "recursiveVM:src-slice", p.pos(fn.Pos()), "the matcher does not slice the subject")
		}
	}
	if fn := c.need(R, "lua", "strGmatchIter"); fn != nil {
		g := p.G(fn)
		n := 0
		allInstrs(fn, func(in ssa.Instruction) {
			ia, ok := in.(*ssa.IndexAddr)
			if !ok || !g.Live(in) {
				return
			}
			if _, isSlice := ia.X.Type().Underlying().(*types.Slice); !isSlice {
				return
			}
			n++
			c.Sites++
			okc, how := indexGuarded(g, in, ia.X, ia.Index)
			c.check(okc, R, fmt.Sprintf("strGmatchIter:index#%d", n), p.ipos(in), how, "the gmatch iterator indexes its match list without testing the position against its length: calling the iterator again after it has returned nil panics with 'index out of range'")
		})
	}
}
