package main

// ssax.go — shared SSA primitives (DESIGN.md Appendix A): no-return set, pruned CFG with its own
// dominators, path conditions, must-pass-through, cell resolution and structural value keys.

import (
	"fmt"
	"go/constant"
	"go/token"
	"go/types"
	"sort"
	"strings"

	"golang.org/x/tools/go/ssa"
)

// ---------------------------------------------------------------------------------------------
// callee helpers

func callOf(in ssa.Instruction) *ssa.CallCommon {
	switch x := in.(type) {
	case *ssa.Call:
		return &x.Call
	case *ssa.Defer:
		return &x.Call
	case *ssa.Go:
		return &x.Call
	}
	return nil
}

// staticCallee returns the statically known callee of a plain call instruction (not defer/go).
func staticCallee(in ssa.Instruction) *ssa.Function {
	c, ok := in.(*ssa.Call)
	if !ok {
		return nil
	}
	return c.Call.StaticCallee()
}

// invokeName returns (interface named type name, method name) for an interface method call.
func invokeName(in ssa.Instruction) (string, string) {
	c, ok := in.(*ssa.Call)
	if !ok || !c.Call.IsInvoke() {
		return "", ""
	}
	recv := c.Call.Value.Type()
	n := ""
	if nt, ok := recv.(*types.Named); ok {
		n = nt.Obj().Name()
	}
	return n, c.Call.Method.Name()
}

func isCallTo(in ssa.Instruction, fns ...*ssa.Function) bool {
	sc := staticCallee(in)
	if sc == nil {
		return false
	}
	for _, f := range fns {
		if f != nil && sc == f {
			return true
		}
	}
	return false
}

// stdCall reports a static call of a function/method in a non-repo package: ("os","Exit") or
// ("strings","ToUpper"), or for methods ("reflect","Value.Send").
func stdCall(in ssa.Instruction) (pkg, name string, ok bool) {
	cc := callOf(in)
	if cc == nil {
		return "", "", false
	}
	return stdCallee(cc)
}

func stdCallee(cc *ssa.CallCommon) (pkg, name string, ok bool) {
	if cc.IsInvoke() {
		m := cc.Method
		if m.Pkg() == nil {
			return "", "", false
		}
		recv := ""
		if nt, ok := cc.Value.Type().(*types.Named); ok {
			recv = nt.Obj().Name() + "."
		}
		return m.Pkg().Path(), recv + m.Name(), true
	}
	fn := cc.StaticCallee()
	if fn == nil || fn.Object() == nil || fn.Object().Pkg() == nil {
		return "", "", false
	}
	o := fn.Object().(*types.Func)
	name = o.Name()
	if sig, ok := o.Type().(*types.Signature); ok && sig.Recv() != nil {
		t := sig.Recv().Type()
		if pt, ok := t.(*types.Pointer); ok {
			t = pt.Elem()
		}
		if nt, ok := t.(*types.Named); ok {
			name = nt.Obj().Name() + "." + name
		}
	}
	return o.Pkg().Path(), name, true
}

// ---------------------------------------------------------------------------------------------
// no-return set (Appendix A1)

func (p *Prog) panicField() *types.Var { return p.Field("lua", "LState", "Panic") }

// isAxiomCall: call through the LState.Panic field.
func (p *Prog) isAxiomCall(in ssa.Instruction) bool {
	c, ok := in.(*ssa.Call)
	if !ok || c.Call.IsInvoke() {
		return false
	}
	return p.isLoadOfField(c.Call.Value, p.panicField())
}

func (p *Prog) isLoadOfField(v ssa.Value, f *types.Var) bool {
	if f == nil {
		return false
	}
	u, ok := v.(*ssa.UnOp)
	if !ok || u.Op != token.MUL {
		return false
	}
	fa, ok := u.X.(*ssa.FieldAddr)
	if !ok {
		return false
	}
	return fieldOf(fa) == f
}

func fieldOf(fa *ssa.FieldAddr) *types.Var {
	t := fa.X.Type()
	if pt, ok := t.Underlying().(*types.Pointer); ok {
		t = pt.Elem()
	}
	st, ok := t.Underlying().(*types.Struct)
	if !ok {
		return nil
	}
	return st.Field(fa.Field)
}

func fieldOfVal(f *ssa.Field) *types.Var {
	st, ok := f.X.Type().Underlying().(*types.Struct)
	if !ok {
		return nil
	}
	return st.Field(f.Field)
}

// implementers of an interface method among repo types (for invoke resolution).
var implMemo = map[string][]*ssa.Function{}

func (p *Prog) implementers(iface *types.Interface, method string) []*ssa.Function {
	mk := iface.String() + "." + method
	if r, ok := implMemo[mk]; ok {
		return r
	}
	out := p.implementers0(iface, method)
	implMemo[mk] = out
	return out
}

func (p *Prog) implementers0(iface *types.Interface, method string) []*ssa.Function {
	var out []*ssa.Function
	for path, sp := range p.SPkgs {
		if !repoPkg(path) {
			continue
		}
		for _, m := range sp.Members {
			t, ok := m.(*ssa.Type)
			if !ok {
				continue
			}
			if _, isIface := t.Type().Underlying().(*types.Interface); isIface {
				continue
			}
			for _, tt := range []types.Type{t.Type(), types.NewPointer(t.Type())} {
				if types.Implements(tt, iface) {
					ms := p.SSA.MethodSets.MethodSet(tt)
					if sel := ms.Lookup(t.Object().Pkg(), method); sel != nil {
						if fn := p.SSA.MethodValue(sel); fn != nil {
							out = append(out, fn)
						}
					}
					break
				}
			}
		}
	}
	return out
}

func (p *Prog) isNoReturnCall(in ssa.Instruction) bool {
	c, ok := in.(*ssa.Call)
	if !ok {
		return false
	}
	if p.isAxiomCall(in) {
		return true
	}
	if pk, n, ok := stdCall(in); ok && pk == "os" && n == "Exit" {
		return true
	}
	if sc := c.Call.StaticCallee(); sc != nil {
		return p.noret[sc]
	}
	if c.Call.IsInvoke() {
		if it, ok := c.Call.Value.Type().Underlying().(*types.Interface); ok {
			if nt, ok := c.Call.Value.Type().(*types.Named); ok && nt.Obj().Pkg() != nil && repoPkg(nt.Obj().Pkg().Path()) {
				impls := p.implementers(it, c.Call.Method.Name())
				if len(impls) == 0 {
					return false
				}
				for _, f := range impls {
					if !p.noret[f] {
						return false
					}
				}
				return true
			}
		}
	}
	return false
}

func (p *Prog) computeNoReturn() {
	if p.noretOK {
		return
	}
	p.noret = map[*ssa.Function]bool{}
	for changed := true; changed; {
		changed = false
		for _, fn := range p.srcFuncs {
			if p.noret[fn] || len(fn.Blocks) == 0 {
				continue
			}
			if fn.Recover != nil {
				continue // may return through the recover block
			}
			g := p.pruned(fn)
			ret := false
			for _, b := range fn.Blocks {
				if !g.Reach[b] {
					continue
				}
				if g.Cut[b] >= 0 {
					continue
				}
				if _, ok := b.Instrs[len(b.Instrs)-1].(*ssa.Return); ok {
					ret = true
					break
				}
			}
			if !ret {
				p.noret[fn] = true
				changed = true
			}
		}
	}
	p.noretOK = true
}

// ---------------------------------------------------------------------------------------------
// pruned CFG

type PCFG struct {
	P     *Prog
	Fn    *ssa.Function
	Cut   map[*ssa.BasicBlock]int // index of the first no-return call in the block, or -1
	Reach map[*ssa.BasicBlock]bool
	idom  map[*ssa.BasicBlock]*ssa.BasicBlock
	rpo   []*ssa.BasicBlock
	rpoN  map[*ssa.BasicBlock]int
}

// pruned builds the pruned CFG using the current no-return set (not memoised while the set grows).
func (p *Prog) pruned(fn *ssa.Function) *PCFG {
	g := &PCFG{P: p, Fn: fn, Cut: map[*ssa.BasicBlock]int{}, Reach: map[*ssa.BasicBlock]bool{}}
	for _, b := range fn.Blocks {
		g.Cut[b] = -1
		for i, in := range b.Instrs {
			if p.isNoReturnCall(in) {
				g.Cut[b] = i
				break
			}
		}
	}
	if len(fn.Blocks) == 0 {
		return g
	}
	// reachability + postorder
	var post []*ssa.BasicBlock
	var dfs func(b *ssa.BasicBlock)
	dfs = func(b *ssa.BasicBlock) {
		g.Reach[b] = true
		for _, s := range g.Succs(b) {
			if !g.Reach[s] {
				dfs(s)
			}
		}
		post = append(post, b)
	}
	dfs(fn.Blocks[0])
	g.rpoN = map[*ssa.BasicBlock]int{}
	for i := len(post) - 1; i >= 0; i-- {
		g.rpoN[post[i]] = len(g.rpo)
		g.rpo = append(g.rpo, post[i])
	}
	// Cooper-Harvey-Kennedy
	g.idom = map[*ssa.BasicBlock]*ssa.BasicBlock{}
	entry := fn.Blocks[0]
	g.idom[entry] = entry
	for changed := true; changed; {
		changed = false
		for _, b := range g.rpo[1:] {
			var nd *ssa.BasicBlock
			for _, pr := range g.Preds(b) {
				if g.idom[pr] == nil {
					continue
				}
				if nd == nil {
					nd = pr
				} else {
					nd = g.intersect(pr, nd)
				}
			}
			if nd != nil && g.idom[b] != nd {
				g.idom[b] = nd
				changed = true
			}
		}
	}
	return g
}

func (g *PCFG) intersect(a, b *ssa.BasicBlock) *ssa.BasicBlock {
	for a != b {
		for g.rpoN[a] > g.rpoN[b] {
			a = g.idom[a]
		}
		for g.rpoN[b] > g.rpoN[a] {
			b = g.idom[b]
		}
	}
	return a
}

// Succs in the pruned graph.
func (g *PCFG) Succs(b *ssa.BasicBlock) []*ssa.BasicBlock {
	if g.Cut[b] >= 0 {
		return nil
	}
	return b.Succs
}

// Preds: effective predecessors (reachable and not cut).
func (g *PCFG) Preds(b *ssa.BasicBlock) []*ssa.BasicBlock {
	var out []*ssa.BasicBlock
	for _, pr := range b.Preds {
		if g.Reach[pr] && g.Cut[pr] < 0 {
			out = append(out, pr)
		}
	}
	return out
}

// Live: the instruction can execute (block reachable, not after a no-return call).
func (g *PCFG) Live(in ssa.Instruction) bool {
	if site := g.foreignSite(in); site != nil {
		return g.Live(site) && g.P.G(in.Parent()).Live(in)
	}
	b := in.Block()
	if b == nil || !g.Reach[b] {
		return false
	}
	if c := g.Cut[b]; c >= 0 {
		return idxIn(b, in) <= c
	}
	return true
}

func idxIn(b *ssa.BasicBlock, in ssa.Instruction) int {
	for i, x := range b.Instrs {
		if x == in {
			return i
		}
	}
	return -1
}

func (g *PCFG) BlockDom(a, b *ssa.BasicBlock) bool {
	if !g.Reach[a] || !g.Reach[b] {
		return false
	}
	for {
		if a == b {
			return true
		}
		n := g.idom[b]
		if n == nil || n == b {
			return false
		}
		b = n
	}
}

// Dominates: instruction a executes before b on every path from entry to b.
func (g *PCFG) Dominates(a, b ssa.Instruction) bool {
	// instructions of a new helper seen through allInstrs' virtual view (effects.go): the helper's body stands
	// at its call site
	sa, sb := g.foreignSite(a), g.foreignSite(b)
	if sa != nil || sb != nil {
		if sa != nil && sb != nil && a.Parent() == b.Parent() {
			return g.P.G(a.Parent()).Dominates(a, b)
		}
		throughA := true
		if sa != nil {
			throughA = dominatesAllReturns(g.P.G(a.Parent()), a.Parent(), a)
			a = sa
		}
		if sb != nil {
			b = sb
		}
		if a == b {
			return false
		}
		return throughA && g.Dominates(a, b)
	}
	ba, bb := a.Block(), b.Block()
	if ba == bb {
		return idxIn(ba, a) < idxIn(bb, b)
	}
	return g.BlockDom(ba, bb) && g.Live(a)
}

// Cond is a branch condition known to hold.
type Cond struct {
	V     ssa.Value
	Sense bool
	At    *ssa.BasicBlock // the block whose If established it
}

// CondsAt returns the conjunction of branch outcomes that must hold whenever block b executes
// (Appendix A2): for every block X on b's dominator chain with a single effective predecessor P
// ending in If, the outcome of P's test that leads to X.
func (g *PCFG) CondsAt(b *ssa.BasicBlock) []Cond {
	var out []Cond
	if !g.Reach[b] {
		return nil
	}
	for x := b; ; {
		preds := g.Preds(x)
		if len(preds) == 1 {
			pr := preds[0]
			if iff, ok := pr.Instrs[len(pr.Instrs)-1].(*ssa.If); ok && len(pr.Succs) == 2 && pr.Succs[0] != pr.Succs[1] {
				sense := pr.Succs[0] == x
				v := iff.Cond
				for {
					u, ok := v.(*ssa.UnOp)
					if !ok || u.Op != token.NOT {
						break
					}
					v = u.X
					sense = !sense
				}
				out = append(out, Cond{V: v, Sense: sense, At: pr})
			}
		}
		n := g.idom[x]
		if n == nil || n == x {
			break
		}
		x = n
	}
	return out
}

// CondsOnEdge: conditions holding when control flows from pred to succ.
func (g *PCFG) CondsOnEdge(pred, succ *ssa.BasicBlock) []Cond {
	out := append([]Cond{}, g.CondsAt(pred)...)
	if len(pred.Instrs) == 0 {
		return out
	}
	if iff, ok := pred.Instrs[len(pred.Instrs)-1].(*ssa.If); ok && len(pred.Succs) == 2 && pred.Succs[0] != pred.Succs[1] {
		sense := pred.Succs[0] == succ
		v := iff.Cond
		for {
			u, ok := v.(*ssa.UnOp)
			if !ok || u.Op != token.NOT {
				break
			}
			v = u.X
			sense = !sense
		}
		out = append(out, Cond{V: v, Sense: sense, At: pred})
	}
	return out
}

// CondsAtInstr: conditions holding at an instruction.
func (g *PCFG) CondsAtInstr(in ssa.Instruction) []Cond {
	if site := g.foreignSite(in); site != nil {
		out := append([]Cond{}, g.CondsAt(site.Block())...)
		return append(out, g.P.G(in.Parent()).CondsAt(in.Block())...)
	}
	return g.CondsAt(in.Block())
}

// walk visits, in execution order, instructions reachable from (b,idx) in the pruned graph without
// passing an instruction for which barrier returns true.  visit returns true to stop (found).
// Returns true when visit stopped it.
func (g *PCFG) walk(b *ssa.BasicBlock, idx int, barrier func(ssa.Instruction) bool, visit func(ssa.Instruction) bool) bool {
	seen := map[*ssa.BasicBlock]bool{}
	var rec func(b *ssa.BasicBlock, idx int) bool
	rec = func(b *ssa.BasicBlock, idx int) bool {
		if idx == 0 {
			if seen[b] {
				return false
			}
			seen[b] = true
		}
		end := len(b.Instrs)
		cut := g.Cut[b]
		for i := idx; i < end; i++ {
			in := b.Instrs[i]
			if barrier != nil && barrier(in) {
				return false
			}
			if visit(in) {
				return true
			}
			if cut >= 0 && i >= cut {
				return false
			}
		}
		for _, s := range b.Succs {
			if rec(s, 0) {
				return true
			}
		}
		return false
	}
	return rec(b, idx)
}

// paramsOfType: the parameters of fn whose type prints as ts (package qualifiers dropped), in order.
// Rules identify parameters by position and type, never by name: renaming one leaves behaviour unchanged.
func paramsOfType(fn *ssa.Function, ts string) []*ssa.Parameter {
	var out []*ssa.Parameter
	for _, pm := range fn.Params {
		if types.TypeString(pm.Type(), func(*types.Package) string { return "" }) == ts {
			out = append(out, pm)
		}
	}
	return out
}

func pkeyAt(ps []*ssa.Parameter, i int) string {
	if i < len(ps) {
		return "p:" + ps[i].Name()
	}
	return "p:?"
}

// after returns the position just after an instruction.
func after(in ssa.Instruction) (*ssa.BasicBlock, int) { return in.Block(), idxIn(in.Block(), in) + 1 }

// MustPassBefore: every path from `from` (exclusive) to any instruction matching target passes an
// instruction matching event first.  Returns the offending target if not.
func (g *PCFG) MustPassBefore(b *ssa.BasicBlock, idx int, event, target func(ssa.Instruction) bool) (bool, ssa.Instruction) {
	var hit ssa.Instruction
	found := g.walk(b, idx, event, func(in ssa.Instruction) bool {
		if target(in) {
			hit = in
			return true
		}
		return false
	})
	return !found, hit
}

func isReturn(in ssa.Instruction) bool { _, ok := in.(*ssa.Return); return ok }

// ---------------------------------------------------------------------------------------------
// cells (captured variables) and structural keys

// rootCell resolves a FreeVar to the Alloc (or FreeVar of an unanalysable parent) it is bound to.
func rootCell(v ssa.Value) ssa.Value {
	for {
		fv, ok := v.(*ssa.FreeVar)
		if !ok {
			return v
		}
		fn := fv.Parent()
		par := fn.Parent()
		if par == nil {
			return v
		}
		idx := -1
		for i, f := range fn.FreeVars {
			if f == fv {
				idx = i
			}
		}
		var bound ssa.Value
		for _, b := range par.Blocks {
			for _, in := range b.Instrs {
				if mc, ok := in.(*ssa.MakeClosure); ok && mc.Fn == fn && idx >= 0 && idx < len(mc.Bindings) {
					bound = mc.Bindings[idx]
				}
			}
		}
		if bound == nil {
			return v
		}
		v = bound
	}
}

// cellStores returns every Store whose address is the given root cell (Alloc), including stores
// made inside closures that capture it.
func cellStores(root ssa.Value) []*ssa.Store {
	var out []*ssa.Store
	seen := map[ssa.Value]bool{}
	var rec func(c ssa.Value)
	rec = func(c ssa.Value) {
		if seen[c] {
			return
		}
		seen[c] = true
		refs := c.Referrers()
		if refs == nil {
			return
		}
		for _, r := range *refs {
			switch r := r.(type) {
			case *ssa.Store:
				if r.Addr == c {
					out = append(out, r)
				}
			case *ssa.MakeClosure:
				for i, b := range r.Bindings {
					if b == c {
						if fn, ok := r.Fn.(*ssa.Function); ok && i < len(fn.FreeVars) {
							rec(fn.FreeVars[i])
						}
					}
				}
			}
		}
	}
	rec(root)
	return out
}

// cellDef: for a load of a captured/addressed local that has exactly one store in the whole closure
// family, the stored value; otherwise nil.
func cellDef(v ssa.Value) ssa.Value {
	u, ok := v.(*ssa.UnOp)
	if !ok || u.Op != token.MUL {
		return nil
	}
	root := rootCell(u.X)
	if _, ok := root.(*ssa.Alloc); !ok {
		return nil
	}
	st := cellStores(root)
	if len(st) != 1 {
		return nil
	}
	return st[0].Val
}

// cellName returns the source name of the cell a value is a load of ("" if not a cell load).
func cellName(v ssa.Value) string {
	u, ok := v.(*ssa.UnOp)
	if !ok || u.Op != token.MUL {
		return ""
	}
	root := rootCell(u.X)
	if a, ok := root.(*ssa.Alloc); ok {
		return a.Comment
	}
	if f, ok := root.(*ssa.FreeVar); ok {
		return f.Name()
	}
	return ""
}

// stripConv removes value-preserving wrappers.
func stripConv(v ssa.Value) ssa.Value {
	for {
		switch x := v.(type) {
		case *ssa.Convert:
			v = x.X
		case *ssa.ChangeType:
			v = x.X
		default:
			return v
		}
	}
}

// resolve follows single-store cells and conversions.
func resolve(v ssa.Value) ssa.Value {
	for i := 0; i < 20; i++ {
		v = stripConv(v)
		if d := cellDef(v); d != nil {
			v = d
			continue
		}
		return v
	}
	return v
}

func constInt(v ssa.Value) (int64, bool) {
	v = stripConv(v)
	c, ok := v.(*ssa.Const)
	if !ok || c.Value == nil {
		return 0, false
	}
	if c.Value.Kind() != constant.Int {
		if c.Value.Kind() == constant.Float {
			if i, ok := constant.Int64Val(constant.ToInt(c.Value)); ok {
				return i, true
			}
		}
		return 0, false
	}
	i, ok := constant.Int64Val(c.Value)
	return i, ok
}

func constStr(v ssa.Value) (string, bool) {
	c, ok := v.(*ssa.Const)
	if !ok || c.Value == nil || c.Value.Kind() != constant.String {
		return "", false
	}
	return constant.StringVal(c.Value), true
}

func constBool(v ssa.Value) (bool, bool) {
	c, ok := v.(*ssa.Const)
	if !ok || c.Value == nil || c.Value.Kind() != constant.Bool {
		return false, false
	}
	return constant.BoolVal(c.Value), true
}

// vkey builds a structural key of a value: equal keys ⇒ same expression over the same roots
// (parameters, single-assignment cells, constants, field loads).  Loads are keyed structurally, so
// two loads of the same field compare equal; callers must make sure no intervening write matters.
func vkey(v ssa.Value) string { return vkeyD(v, 0) }

func vkeyD(v ssa.Value, d int) string {
	if d > 12 {
		return "…"
	}
	v = stripConv(v)
	switch x := v.(type) {
	case *ssa.Parameter:
		return "p:" + x.Name()
	case *ssa.Const:
		if x.Value == nil {
			return "nil"
		}
		return "c:" + x.Value.ExactString()
	case *ssa.Global:
		return "g:" + x.Name()
	case *ssa.Function:
		return "fn:" + fname(x)
	case *ssa.FreeVar, *ssa.Alloc:
		root := rootCell(x)
		if a, ok := root.(*ssa.Alloc); ok {
			return "&cell:" + fname(a.Parent()) + "." + a.Comment
		}
		return "&" + root.Name()
	case *ssa.UnOp:
		if x.Op == token.MUL {
			if dv := cellDef(x); dv != nil {
				return vkeyD(dv, d+1)
			}
			if n := cellName(x); n != "" {
				return "cell:" + n
			}
			return "*" + vkeyD(x.X, d+1)
		}
		return x.Op.String() + vkeyD(x.X, d+1)
	case *ssa.FieldAddr:
		f := fieldOf(x)
		n := fmt.Sprint(x.Field)
		if f != nil {
			n = f.Name()
		}
		return "&(" + vkeyD(x.X, d+1) + ")." + n
	case *ssa.Field:
		f := fieldOfVal(x)
		n := fmt.Sprint(x.Field)
		if f != nil {
			n = f.Name()
		}
		return "(" + vkeyD(x.X, d+1) + ")." + n
	case *ssa.IndexAddr:
		return "&" + vkeyD(x.X, d+1) + "[" + vkeyD(x.Index, d+1) + "]"
	case *ssa.Index:
		return vkeyD(x.X, d+1) + "[" + vkeyD(x.Index, d+1) + "]"
	case *ssa.BinOp:
		return "(" + vkeyD(x.X, d+1) + " " + x.Op.String() + " " + vkeyD(x.Y, d+1) + ")"
	case *ssa.Call:
		var args []string
		for _, a := range x.Call.Args {
			args = append(args, vkeyD(a, d+1))
		}
		if x.Call.IsInvoke() {
			return "invoke " + vkeyD(x.Call.Value, d+1) + "." + x.Call.Method.Name() + "(" + strings.Join(args, ",") + ")"
		}
		if sc := x.Call.StaticCallee(); sc != nil {
			return "call " + fname(sc) + "(" + strings.Join(args, ",") + ")"
		}
		if b, ok := x.Call.Value.(*ssa.Builtin); ok {
			return b.Name() + "(" + strings.Join(args, ",") + ")"
		}
		return "dyncall " + vkeyD(x.Call.Value, d+1) + "(" + strings.Join(args, ",") + ")"
	case *ssa.Extract:
		return fmt.Sprintf("%s#%d", vkeyD(x.Tuple, d+1), x.Index)
	case *ssa.TypeAssert:
		return "assert(" + vkeyD(x.X, d+1) + "," + types.TypeString(x.AssertedType, func(*types.Package) string { return "" }) + ")"
	case *ssa.MakeInterface:
		return vkeyD(x.X, d+1)
	case *ssa.Slice:
		s := "slice(" + vkeyD(x.X, d+1)
		for _, y := range []ssa.Value{x.Low, x.High, x.Max} {
			if y != nil {
				s += "," + vkeyD(y, d+1)
			} else {
				s += ",_"
			}
		}
		return s + ")"
	case *ssa.Phi:
		return "phi:" + fname(x.Parent()) + "." + x.Name()
	}
	if v.Parent() != nil {
		return "v:" + fname(v.Parent()) + "." + v.Name()
	}
	return "v:" + v.Name()
}

// ---------------------------------------------------------------------------------------------
// misc

func allInstrs(fn *ssa.Function, f func(ssa.Instruction)) {
	for _, b := range fn.Blocks {
		for _, in := range b.Instrs {
			f(in)
		}
	}
	// virtual view: the bodies of new helpers (functions the baseline does not know and the source inliner
	// could not put back, normalize.go) are read as part of the baseline function that calls them
	if !virtualView || !anyNewHelpers || isNewHelperMemo(fn) {
		return
	}
	seen := map[*ssa.Function]bool{fn: true}
	var visit func(from *ssa.Function, site ssa.Instruction, d int)
	visit = func(from *ssa.Function, site ssa.Instruction, d int) {
		for _, b := range from.Blocks {
			for _, in := range b.Instrs {
				sc := staticCallee(in)
				if sc == nil || seen[sc] || sc.Blocks == nil || !isNewHelperMemo(sc) {
					continue
				}
				seen[sc] = true
				at := site
				if at == nil {
					at = in
				}
				if helperSite[sc] == nil {
					helperSite[sc] = map[*ssa.Function]ssa.Instruction{}
				}
				helperSite[sc][fn] = at
				for _, hb := range sc.Blocks {
					for _, hin := range hb.Instrs {
						f(hin)
					}
				}
				if d < 2 {
					visit(sc, at, d+1)
				}
			}
		}
	}
	visit(fn, nil, 0)
}

var anyNewHelpers, virtualView bool
var helperSite = map[*ssa.Function]map[*ssa.Function]ssa.Instruction{}
var newHelperMemo = map[*ssa.Function]bool{}

func isNewHelperMemo(fn *ssa.Function) bool {
	if v, ok := newHelperMemo[fn]; ok {
		return v
	}
	v := isNewHelper(fn)
	newHelperMemo[fn] = v
	return v
}

// foreignSite: for an instruction of a new helper seen through the virtual view, the call in g's function
// that stands for it (nil for g's own instructions).
func (g *PCFG) foreignSite(in ssa.Instruction) ssa.Instruction {
	if !virtualView || !anyNewHelpers || in == nil || in.Parent() == g.Fn || in.Parent() == nil {
		return nil
	}
	if m := helperSite[in.Parent()]; m != nil {
		return m[g.Fn]
	}
	return nil
}

// withClosures visits fn and all its (transitively) nested anonymous functions.
func withClosures(fn *ssa.Function, f func(*ssa.Function)) {
	f(fn)
	for _, a := range fn.AnonFuncs {
		withClosures(a, f)
	}
}

func sortedKeys[M ~map[string]V, V any](m M) []string {
	out := make([]string, 0, len(m))
	for k := range m {
		out = append(out, k)
	}
	sort.Strings(out)
	return out
}

// isFieldStore: Store whose address is FieldAddr of the given field.
func isFieldStore(in ssa.Instruction, f *types.Var) (*ssa.Store, bool) {
	st, ok := in.(*ssa.Store)
	if !ok {
		return nil, false
	}
	fa, ok := st.Addr.(*ssa.FieldAddr)
	if !ok || f == nil {
		return nil, false
	}
	return st, fieldOf(fa) == f
}

// loadsField: v is (a conversion of) a load of field f; returns the base object value.
func loadsField(v ssa.Value, f *types.Var) (ssa.Value, bool) {
	v = stripConv(v)
	// a field of a struct VALUE (the element copy of `for _, e := range slice`)
	if fv, ok := v.(*ssa.Field); ok && f != nil && fieldOfVal(fv) == f {
		return fv.X, true
	}
	u, ok := v.(*ssa.UnOp)
	if !ok || u.Op != token.MUL {
		return nil, false
	}
	fa, ok := u.X.(*ssa.FieldAddr)
	if !ok || f == nil || fieldOf(fa) != f {
		return nil, false
	}
	return fa.X, true
}

// recvNamed returns the name of the (pointer-stripped) named receiver type of a method, or "".
func recvNamed(fn *ssa.Function) string {
	if fn == nil || fn.Signature.Recv() == nil {
		return ""
	}
	t := fn.Signature.Recv().Type()
	if pt, ok := t.(*types.Pointer); ok {
		t = pt.Elem()
	}
	if nt, ok := t.(*types.Named); ok {
		return nt.Obj().Name()
	}
	return ""
}

// expandAnd adds what a true `a && b` evaluated as a VALUE implies (go/ssa builds a bool phi
// [short-circuit edge: false, other edge: b] for `case a && b:` of a tagless switch and for `x := a && b`):
// b is true, and everything that holds on the edge the value b arrives on (among it: a).
func (g *PCFG) expandAnd(conds []Cond) []Cond {
	out := append([]Cond(nil), conds...)
	for i := 0; i < len(out) && i < 64; i++ {
		cd := out[i]
		ph, ok := cd.V.(*ssa.Phi)
		if !ok || !cd.Sense {
			continue
		}
		live := -1
		okShape := true
		for k, e := range ph.Edges {
			if b, isK := constBool(e); isK && !b {
				continue
			}
			if live >= 0 {
				okShape = false
			}
			live = k
		}
		if !okShape || live < 0 {
			continue
		}
		out = append(out, Cond{V: ph.Edges[live], Sense: true, At: ph.Block()})
		pred := ph.Block().Preds[live]
		out = append(out, g.CondsOnEdge(pred, ph.Block())...)
	}
	return out
}

// holdsOnAllPaths: on every path into block b some established branch outcome satisfies sat. Unlike
// CondsAt (dominating tests only) it follows the arms of a disjunction: for a block entered from
// several predecessors (`if a || b`), every entering edge has to carry a satisfying outcome, directly
// or further up. Value-form conjunctions are expanded (expandAnd).
func (g *PCFG) holdsOnAllPaths(b *ssa.BasicBlock, sat func(Cond) bool, depth int) bool {
	for _, cd := range g.expandAnd(g.CondsAt(b)) {
		if sat(cd) {
			return true
		}
	}
	if depth > 6 {
		return false
	}
	preds := g.Preds(b)
	if len(preds) == 0 {
		return false
	}
	for _, pr := range preds {
		ok := false
		for _, cd := range g.expandAnd(g.CondsOnEdge(pr, b)) {
			if sat(cd) {
				ok = true
			}
		}
		if !ok && !g.holdsOnAllPaths(pr, sat, depth+1) {
			return false
		}
	}
	return true
}

// holdsOnAllPathsOr: like holdsOnAllPaths, but a path is also fine when it passes through a block for
// which via() holds (an instruction that establishes the fact directly).
func (g *PCFG) holdsOnAllPathsOr(b *ssa.BasicBlock, sat func(Cond) bool, via func(*ssa.BasicBlock) bool, depth int) bool {
	if via(b) {
		return true
	}
	for _, cd := range g.expandAnd(g.CondsAt(b)) {
		if sat(cd) {
			return true
		}
	}
	if depth > 8 {
		return false
	}
	preds := g.Preds(b)
	if len(preds) == 0 {
		return false
	}
	for _, pr := range preds {
		ok := false
		for _, cd := range g.expandAnd(g.CondsOnEdge(pr, b)) {
			if sat(cd) {
				ok = true
			}
		}
		if !ok && !g.holdsOnAllPathsOr(pr, sat, via, depth+1) {
			return false
		}
	}
	return true
}

// eqHolds / neHolds: the path condition says the two operands of the comparison are equal / differ,
// whichever way the test is spelled (`a == b` taken, or `a != b` not taken after an early return).
func eqHolds(b *ssa.BinOp, cd Cond) bool {
	return b != nil && ((b.Op == token.EQL && cd.Sense) || (b.Op == token.NEQ && !cd.Sense))
}

func neHolds(b *ssa.BinOp, cd Cond) bool {
	return b != nil && ((b.Op == token.EQL && !cd.Sense) || (b.Op == token.NEQ && cd.Sense))
}
