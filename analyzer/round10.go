package main

// round10.go — rules added after seeding round 10.

import (
	"fmt"
	"go/token"
	"go/types"
	"os"
	"os/exec"
	"regexp"
	"strconv"
	"strings"

	"golang.org/x/tools/go/ssa"
)

// ruleRecursionCapFitsTheStack: C14 "no pattern or subject makes the matcher … recurse without bound".
// R14-depth decides that every recursive call of the matcher is capped by maxRecursionLevel; the cap
// only helps if it fires before the Go stack is exhausted (a fatal error nothing recovers). The frame
// size of recursiveVM is read from the compiler (go build -gcflags=-S, the STEXT line: locals) for the
// configuration being analysed, and cap × (locals + one word) has to fit the largest stack the runtime
// can grow to: stacks double, so that is the largest power of two not above the runtime's limit
// (1 GB on 64-bit, 250 MB on 32-bit platforms).
func ruleRecursionCapFitsTheStack(c *Ctx) {
	const R = "R14-depth"
	p := c.P
	pk := p.Pkg("pm")
	if pk == nil {
		c.und(R, "cap-fits-the-go-stack", "-", "package pm not loaded")
		return
	}
	cst, ok := pk.Types.Scope().Lookup("maxRecursionLevel").(*types.Const)
	if !ok {
		c.und(R, "cap-fits-the-go-stack", "-", "pm.maxRecursionLevel not found")
		return
	}
	limit, ok := constValInt(cst)
	if !ok {
		c.und(R, "cap-fits-the-go-stack", "-", "pm.maxRecursionLevel is not an integer constant")
		return
	}
	env := append(os.Environ(), "GOFLAGS=-mod=mod", "GOPROXY=off", "GOSUMDB=off", "GOTOOLCHAIN=local", "GOWORK=off")
	word, maxStack := int64(8), int64(1000000000)
	goarch := p.GOARCH
	if p.GOOS != "" {
		env = append(env, "GOOS="+p.GOOS, "CGO_ENABLED=0")
	}
	if goarch != "" {
		env = append(env, "GOARCH="+goarch)
	}
	switch goarch {
	case "386", "arm", "mips", "mipsle":
		word, maxStack = 4, 250000000
	}
	cmd := exec.Command("go", "build", "-gcflags=-S", "-o", os.DevNull, "./pm")
	cmd.Dir = p.Dir
	cmd.Env = env
	out, _ := cmd.CombinedOutput()
	re := regexp.MustCompile(`pm\.recursiveVM STEXT.* locals=0x([0-9a-f]+)`)
	m := re.FindStringSubmatch(string(out))
	if m == nil {
		c.und(R, "cap-fits-the-go-stack", "-", "the compiler listing has no STEXT line for pm.recursiveVM: "+lastLines(string(out), 2))
		return
	}
	locals, _ := strconv.ParseInt(m[1], 16, 64)
	per := locals + word
	usable := int64(1)
	for usable*2 <= maxStack {
		usable *= 2
	}
	c.Sites++
	pos := "-"
	if fn := p.Fn("pm", "recursiveVM"); fn != nil {
		pos = p.pos(fn.Pos())
		c.touch(fn)
	}
	c.check(limit*per <= usable, R, "cap-fits-the-go-stack", pos,
		fmt.Sprintf("%d levels × %d bytes per level (compiler: locals=%d) = %d MB, the stack can grow to %d MB", limit, per, locals, limit*per>>20, usable>>20),
		fmt.Sprintf("pm.maxRecursionLevel = %d levels × %d bytes per recursiveVM frame (compiler: locals=%d) = %d MB exceeds the %d MB a goroutine stack can grow to: a long subject against a single-character repetition exhausts the Go stack before the cap fires — 'fatal error: stack overflow' ends the process, pcall cannot catch it", limit, per, locals, limit*per>>20, usable>>20))
}

// ruleFlagRecomputedPerToken: C08 "every text the grammar accepts is accepted … whatever the line
// breaks": Lexer.PNewLine says whether THIS '(' began a new line after a ')'. It is recomputed for every
// token: wherever Scan stores a computed value under a condition, the other outcome of that condition
// stores false. A flag that is only ever set stays set until the next ')(' pair and makes the parser
// report "ambiguous syntax" for an unrelated call later on.
func ruleFlagRecomputedPerToken(c *Ctx) {
	const R = "R08-comment"
	p := c.P
	f := p.Field("parse", "Lexer", "PNewLine")
	if f == nil {
		c.und(R, "PNewLine:anchor", "-", "parse.Lexer.PNewLine not found")
		return
	}
	n := 0
	for _, fn := range p.srcFuncs {
		if fn.Pkg == nil || fn.Pkg.Pkg.Name() != "parse" || fn.Blocks == nil {
			continue
		}
		var sets, clears []*ssa.Store
		allInstrs(fn, func(in ssa.Instruction) {
			st, ok := isFieldStore(in, f)
			if !ok {
				return
			}
			if b, isK := constBool(st.Val); isK && !b {
				clears = append(clears, st)
			} else {
				sets = append(sets, st)
			}
		})
		if len(sets) == 0 {
			continue
		}
		g := p.G(fn)
		for i, st := range sets {
			n++
			c.Sites++
			c.touch(fn)
			// from the test that decides the set, every way to a return stores the flag (the set, or a clear)
			conds := g.CondsAtInstr(st)
			okc := len(conds) == 0
			if len(conds) > 0 {
				first := conds[0].At
				for _, cd := range conds {
					if g.BlockDom(cd.At, first) {
						first = cd.At
					}
				}
				stores := func(x ssa.Instruction) bool { _, ok := isFieldStore(x, f); return ok }
				okc, _ = g.MustPassBefore(first, len(first.Instrs)-1, stores, isReturn)
			}
			c.check(okc, R, fmt.Sprintf("PNewLine:%s#%d:cleared-where-not-set", fn.Name(), i+1), p.ipos(st), "the other outcome of the condition stores false",
				fname(fn)+" sets Lexer.PNewLine for a '(' that follows a ')' and does not clear it for any other token: the flag stays set until the next ')(' pair, and a later, unrelated call is refused with 'ambiguous syntax (function call x new statement)' — whether a valid program loads depends on where an earlier line break fell")
		}
	}
	c.check(n > 0, R, "PNewLine:sites", "-", fmt.Sprintf("%d conditional store(s) of the flag examined", n), "no store of Lexer.PNewLine found in package parse")
}

// ruleSignOfNonFinite: C15 "format renders %e %E %f … as C printf does": the sign of an infinity or a
// NaN is its sign bit (printf prints -nan for a NaN with the sign bit set; v < 0 is false for every NaN).
// In cNonFinite the minus sign is decided by math.Signbit, not by an ordering comparison of the value.
func ruleSignOfNonFinite(c *Ctx) {
	const R = "R15-flags"
	p := c.P
	fn := c.need(R, "lua", "cNonFinite")
	if fn == nil {
		return
	}
	v := ssa.Value(fn.Params[0])
	signbit := false
	var cmp ssa.Instruction
	allInstrs(fn, func(in ssa.Instruction) {
		if pk, nm, ok := stdCall(in); ok && pk == "math" && nm == "Signbit" {
			if callOf(in).Args[0] == v {
				signbit = true
			}
		}
		if b, ok := in.(*ssa.BinOp); ok {
			switch b.Op {
			case token.LSS, token.GTR, token.LEQ, token.GEQ:
				if stripConv(b.X) == v || stripConv(b.Y) == v {
					cmp = in
				}
			}
		}
	})
	pos := p.pos(fn.Pos())
	if cmp != nil {
		pos = p.ipos(cmp)
	}
	c.Sites++
	c.check(signbit && cmp == nil, R, "cNonFinite:sign-from-the-sign-bit", pos, "the sign is math.Signbit of the value; the value is not compared by order",
		"cNonFinite decides the sign of an infinity/NaN by comparing the value (v < 0) instead of by its sign bit: every comparison with a NaN is false, so a NaN with the sign bit set is rendered 'nan' ('+nan' with the + flag) where C printf prints '-nan'")
}

// ruleAbandonAlwaysReplacesTheReader: C19 "seek … the next read returns the bytes at the cursor":
// AbandonReadBuffer gives back what was read ahead AND replaces the bufio.Reader; the reader carries
// more state than its buffered bytes (a latched end-of-file or error, a pending rune): no return of the
// function on the path of a regular file with a reader leaves the old reader in place.
func ruleAbandonAlwaysReplacesTheReader(c *Ctx) {
	const R = "R19-reconcile"
	p := c.P
	fn := c.need(R, "lua", "(*lFile).AbandonReadBuffer")
	rF := p.Field("lua", "lFile", "reader")
	if fn == nil || rF == nil {
		return
	}
	g := p.G(fn)
	// from the arm on which the reader is known to exist, every success return (nil) comes after a store
	// of the reader field
	okc, n := true, 0
	var where ssa.Instruction
	allInstrs(fn, func(in ssa.Instruction) {
		iff, ok := in.(*ssa.If)
		if !ok || !g.Live(in) {
			return
		}
		bo, ok := iff.Cond.(*ssa.BinOp)
		if !ok || (bo.Op != token.NEQ && bo.Op != token.EQL) {
			return
		}
		_, lx := loadsField(bo.X, rF)
		_, ly := loadsField(bo.Y, rF)
		if !lx && !ly {
			return
		}
		arm := in.Block().Succs[0]
		if bo.Op == token.EQL {
			arm = in.Block().Succs[1]
		}
		n++
		success := func(x ssa.Instruction) bool {
			r, ok := x.(*ssa.Return)
			if !ok {
				return false
			}
			if len(r.Results) == 1 {
				cst, isK := r.Results[0].(*ssa.Const)
				return isK && cst.IsNil()
			}
			return true
		}
		stores := func(x ssa.Instruction) bool { _, ok := isFieldStore(x, rF); return ok }
		if ok, wit := g.MustPassBefore(arm, 0, stores, success); !ok {
			okc = false
			where = wit
		}
	})
	pos := p.pos(fn.Pos())
	if where != nil {
		pos = p.ipos(where)
	}
	c.Sites++
	c.check(n > 0 && okc, R, "AbandonReadBuffer:reader-replaced-on-every-success", pos, fmt.Sprintf("%d success return(s) with a reader, each after a new reader was installed", n),
		"AbandonReadBuffer can succeed and leave the old bufio.Reader in place: besides buffered bytes a reader holds a latched end-of-file or error (and a pending partial rune after read('*n')), so after seek('set', 0) the next read answers nil from the stale reader instead of reading at the new position")
}

// ruleLibrariesThroughRegisterModule: C20 "modules registered by the host are reachable both through
// require and through their global name": every library opener (a function stored in the luaLibs table /
// named Open*) publishes its table through RegisterModule (which enters it in _LOADED and sets the
// global), not by a bare SetGlobal of a table it built itself.
func ruleLibrariesThroughRegisterModule(c *Ctx) {
	const R = "R20-order"
	p := c.P
	reg := p.Fn("lua", "(*LState).RegisterModule")
	setG := p.Fn("lua", "(*LState).SetGlobal")
	if reg == nil || setG == nil {
		c.und(R, "openers:anchors", "-", "RegisterModule / SetGlobal not found")
		return
	}
	n := 0
	for _, fn := range p.srcFuncs {
		if fn.Pkg == nil || fn.Pkg.Pkg.Path() != luaPath || fn.Parent() != nil || fn.Signature.Recv() != nil {
			continue
		}
		if !strings.HasPrefix(fn.Name(), "Open") || len(fn.Params) != 1 || typeName(fn.Params[0].Type()) != "LState" || fn.Signature.Results().Len() != 1 {
			continue
		}
		n++
		c.Sites++
		c.touch(fn)
		uses := len(callsTo(fn, reg)) > 0
		c.check(uses, R, "opener:"+fn.Name()+":published-through-RegisterModule", p.pos(fn.Pos()), "calls RegisterModule",
			fn.Name()+" does not publish its library through RegisterModule: the table is not entered in package.loaded, so require of the library's name searches the preloads and the path (and may load a file of that name) instead of returning the table the global names")
	}
	c.check(n >= 8, R, "openers", "-", fmt.Sprintf("%d library openers examined", n), "library openers (Open*) not found")
}

// ruleNoSentinelDefaults: C02/C18 "unpack(t,i,j) … exactly the manual's results": an optional argument
// whose default is not a constant (the length of the list) is passed to OptInt as that default. Passing
// a negative constant instead and decoding it afterwards (`if end < 0 { end = #t }`) conflates an
// explicit negative argument with an absent one — unless the decoding also tests that the argument is
// absent (string.gsub's count does: `limit < 0 && L.Get(4) != LNil`).
func ruleNoSentinelDefaults(c *Ctx) {
	const R = "R14-optnil"
	p := c.P
	n := 0
	for _, fn := range p.srcFuncs {
		if fn.Pkg == nil || fn.Pkg.Pkg.Path() != luaPath || len(fn.Params) != 1 || typeName(fn.Params[0].Type()) != "LState" || fn.Blocks == nil {
			continue
		}
		if file := p.pos(fn.Pos()); (c.Prop == "C18" && !(strings.HasPrefix(file, "tablelib.go:") || fn.Name() == "baseUnpack")) ||
			(c.Prop == "C02" && !strings.HasPrefix(file, "baselib.go:")) {
			continue
		}
		var g *PCFG
		allInstrs(fn, func(in ssa.Instruction) {
			cl, ok := in.(*ssa.Call)
			if !ok {
				return
			}
			sc := cl.Call.StaticCallee()
			if sc == nil || recvNamed(sc) != "LState" || (sc.Name() != "OptInt" && sc.Name() != "OptInt64" && sc.Name() != "OptNumber") || len(cl.Call.Args) != 3 {
				return
			}
			idx, okI := constInt(cl.Call.Args[1])
			def, okD := constInt(cl.Call.Args[2])
			if !okI || !okD || def >= 0 {
				return
			}
			if g == nil {
				g = p.G(fn)
			}
			n++
			c.Sites++
			c.touch(fn)
			// a branch that singles out the sentinel's range…
			var bad ssa.Instruction
			for _, r := range *cl.Referrers() {
				b, ok := r.(*ssa.BinOp)
				if !ok {
					continue
				}
				k, isK := constInt(b.Y)
				if b.X != ssa.Value(cl) || !isK {
					continue
				}
				hits := (b.Op == token.LSS && k > def) || (b.Op == token.LEQ && k >= def) || ((b.Op == token.EQL || b.Op == token.NEQ) && k == def)
				if !hits {
					continue
				}
				// …is fine when the same decision also looks at the argument itself
				presence := false
				for _, u := range *b.Referrers() {
					iff, ok := u.(*ssa.If)
					if !ok {
						if _, isPhi := u.(*ssa.Phi); isPhi {
							presence = true // a value-form conjunction: judged by its other operand below
						}
						continue
					}
					for _, s := range iff.Block().Succs {
						for _, x := range s.Instrs {
							if gc, ok := x.(*ssa.Call); ok {
								if gs := gc.Call.StaticCallee(); gs != nil && gs.Name() == "Get" && recvNamed(gs) == "LState" {
									if gi, ok := constInt(gc.Call.Args[1]); ok && gi == idx {
										presence = true
									}
								}
							}
						}
					}
				}
				if !presence {
					bad = r
				}
			}
			pos := p.ipos(cl)
			if bad != nil {
				pos = p.ipos(bad)
			}
			c.check(bad == nil, R, fmt.Sprintf("%s:argument-%d-default-not-decoded-from-a-sentinel", fn.Name(), idx), pos, "the negative default is not singled out afterwards without a look at the argument itself",
				fmt.Sprintf("%s reads optional argument %d with the default %d and then treats every value in that range as 'absent': an explicit negative argument is replaced by the computed default — unpack(t, -2, -1) returns #t+3 values instead of 2", fn.Name(), idx, def))
		})
	}
	c.okT(R, "sentinel-defaults", "-", fmt.Sprintf("%d optional numeric argument(s) with a negative constant default examined", n))
}

// ruleHexPrefixOnce: C16 "the lexer, tonumber and coercion agree on every numeral and reject everything
// else": a hexadecimal numeral is 0x… — one zero, then the x. scanNumber tests for the prefix once, at
// the first character: the comparison with 'x'/'X' does not sit in a loop (a loop that strips leading
// zeros and re-tests makes `00x10` the number 16, which tonumber rejects).
func ruleHexPrefixOnce(c *Ctx) {
	const R = "R16-onereader"
	p := c.P
	fn := c.need(R, "parse", "(*Scanner).scanNumber")
	if fn == nil {
		return
	}
	g := p.G(fn)
	inLoop := map[*ssa.BasicBlock]bool{}
	for _, li := range g.loops() {
		for b := range li.Body {
			inLoop[b] = true
		}
	}
	n := 0
	seen := map[int64]bool{}
	var bad ssa.Instruction
	allInstrs(fn, func(in ssa.Instruction) {
		b, ok := in.(*ssa.BinOp)
		if !ok || (b.Op != token.EQL && b.Op != token.NEQ) || !g.Live(in) {
			return
		}
		k, isK := constInt(b.Y)
		if !isK || (k != 'x' && k != 'X') {
			return
		}
		n++
		seen[k] = true
		if inLoop[in.Block()] && bad == nil {
			bad = in
		}
	})
	c.Sites++
	c.check(seen['x'] && seen['X'], R, "scanNumber:hex-prefix-in-both-cases", p.pos(fn.Pos()), "the prefix test accepts 0x and 0X", "scanNumber tests for one spelling of the hexadecimal prefix only: `0X10` — a numeral of Lua 5.1, accepted by tonumber — is read as 0 followed by the name X10 and the chunk is rejected")
	pos := p.pos(fn.Pos())
	if bad != nil {
		pos = p.ipos(bad)
	}
	c.Sites++
	c.check(n > 0 && bad == nil, R, "scanNumber:hex-prefix-tested-once", pos, fmt.Sprintf("%d test(s) for the x of a hex prefix, none in a loop", n),
		"scanNumber tests for the hexadecimal prefix inside a loop: after leading zeros were skipped the test runs again, and `00x10` is read as the hexadecimal numeral 0x10 (16) — a spelling tonumber and string coercion reject")
}

// ruleParserRecursionCapped: F134. C14 "no pattern … makes the matcher … recurse without bound": the
// pattern parser recurses once per opening parenthesis. Every recursive call of parsePattern is dominated
// by a test of a counter against a constant whose failing arm panics (a *pm.Error, which the string
// library raises as a Lua error) — the Go stack is not a bound: exhausting it is fatal.
func ruleParserRecursionCapped(c *Ctx) {
	const R = "R14-depth"
	p := c.P
	fn := c.need(R, "pm", "parsePattern")
	if fn == nil {
		return
	}
	g := p.G(fn)
	n, okc := 0, true
	var where ssa.Instruction
	for _, cl := range callsTo(fn, fn) {
		if !g.Live(cl) {
			continue
		}
		n++
		capped := false
		allInstrs(fn, func(in ssa.Instruction) {
			iff, ok := in.(*ssa.If)
			if !ok || !g.Dominates(in, cl) {
				return
			}
			b, ok := iff.Cond.(*ssa.BinOp)
			if !ok {
				return
			}
			_, kx := constInt(b.X)
			_, ky := constInt(b.Y)
			if !kx && !ky {
				return
			}
			switch b.Op {
			case token.GTR, token.GEQ, token.LSS, token.LEQ:
			default:
				return
			}
			for _, s := range iff.Block().Succs {
				for _, x := range s.Instrs {
					if _, isPanic := x.(*ssa.Panic); isPanic {
						capped = true
					}
				}
			}
		})
		if !capped {
			okc = false
			where = cl
		}
	}
	pos := p.pos(fn.Pos())
	if where != nil {
		pos = p.ipos(where)
	}
	c.Sites++
	c.check(n > 0 && okc, R, "parsePattern:recursion-capped", pos, fmt.Sprintf("%d recursive call(s), each after a raising test of a counter against a constant", n),
		"parsePattern calls itself for every '(' without a raising depth test before the call: a pattern of a few million opening parentheses exhausts the Go stack — 'fatal error: stack overflow', which pcall cannot catch")
}

// ruleHandlerHasFrames: F136. C05 "xpcall's handler runs exactly once … and its result is what the
// caller receives", whatever the error — also "stack overflow". The handler is called from PCall's
// recovery with the failed call's frames still in place, so when the call stack is full the recovery
// makes room first: the handler's call is dominated by a test of stack.IsFull() whose true arm lowers the
// stack pointer.
func ruleHandlerHasFrames(c *Ctx) {
	const R = "R05-handlerarm"
	p := c.P
	pcall := c.need(R, "lua", "(*LState).PCall")
	callF := p.Fn("lua", "(*LState).Call")
	if pcall == nil || callF == nil {
		return
	}
	found, okc := false, false
	var where ssa.Instruction
	withClosures(pcall, func(fn *ssa.Function) {
		if fn == pcall {
			return
		}
		g := p.G(fn)
		for _, cl := range callsTo(fn, callF) {
			// the handler call: Call(1, 1)
			a, okA := constInt(cl.Call.Args[1])
			b, okB := constInt(cl.Call.Args[2])
			if !okA || !okB || a != 1 || b != 1 || !g.Live(cl) {
				continue
			}
			found = true
			where = cl
			allInstrs(fn, func(in ssa.Instruction) {
				iff, ok := in.(*ssa.If)
				if !ok || !g.Dominates(in, cl) {
					return
				}
				cc, ok := iff.Cond.(*ssa.Call)
				if !ok {
					return
				}
				name := ""
				if cc.Call.IsInvoke() {
					name = cc.Call.Method.Name()
				} else if sc := cc.Call.StaticCallee(); sc != nil {
					name = sc.Name()
				}
				if name != "IsFull" {
					return
				}
				arm := iff.Block().Succs[0]
				allInstrs(fn, func(x ssa.Instruction) {
					if !g.BlockDom(arm, x.Block()) {
						return
					}
					if cx := callOf(x); cx != nil {
						n2 := ""
						if cx.IsInvoke() {
							n2 = cx.Method.Name()
						} else if sc := cx.StaticCallee(); sc != nil {
							n2 = sc.Name()
						}
						if n2 == "SetSp" || n2 == "Pop" {
							okc = true
						}
					}
				})
			})
		}
	})
	pos := p.pos(pcall.Pos())
	if where != nil {
		pos = p.ipos(where)
	}
	c.Sites++
	c.check(found && okc, R, "PCall:handler-gets-frames-on-a-full-call-stack", pos, "the handler's call follows a test of stack.IsFull() whose true arm frees frames",
		"PCall's recovery calls the message handler without making room on a full call stack: when the error is 'stack overflow' the handler's own call overflows again, the handler never runs and xpcall returns the raw message")
}

// ruleResumeConsultsContext: F137 (R11-exit for the third entry point named by C11: "the running
// DoString/PCall/Resume returns an error carrying the context's reason"). After the coroutine has run,
// every way of LState.Resume to a return that does not report an error reads LState.ctx.
func ruleResumeConsultsContext(c *Ctx) {
	const R = "R11-exit"
	p := c.P
	fn := c.need(R, "lua", "(*LState).Resume")
	run := p.Fn("lua", "threadRun")
	ctxF := p.Field("lua", "LState", "ctx")
	if fn == nil || run == nil || ctxF == nil {
		c.und(R, "Resume:anchors", "-", "threadRun / LState.ctx not found")
		return
	}
	errState := int64(-1)
	if cst, ok := p.Pkg("lua").Types.Scope().Lookup("ResumeError").(*types.Const); ok {
		if v, ok := constValInt(cst); ok {
			errState = v
		}
	}
	g := p.G(fn)
	reads := func(in ssa.Instruction) bool {
		if u, ok := in.(*ssa.UnOp); ok && u.Op == token.MUL {
			if fa, ok := u.X.(*ssa.FieldAddr); ok && fieldOf(fa) == ctxF {
				return true
			}
		}
		return false
	}
	success := func(in ssa.Instruction) bool {
		r, ok := in.(*ssa.Return)
		if !ok || len(r.Results) == 0 {
			return false
		}
		k, isK := constInt(r.Results[0])
		return !isK || k != errState
	}
	n, okc := 0, true
	var where ssa.Instruction
	for _, cl := range callsTo(fn, run) {
		if !g.Live(cl) {
			continue
		}
		n++
		b, i := after(cl)
		if ok, wit := g.MustPassBefore(b, i, reads, success); !ok {
			okc = false
			where = wit
		}
	}
	pos := p.pos(fn.Pos())
	if where != nil {
		pos = p.ipos(where)
	}
	c.Sites++
	c.check(n > 0 && okc && errState >= 0, R, "Resume:context-consulted-after-the-run", pos, "after the coroutine has run, LState.ctx is read on every way to a return that reports no error",
		"LState.Resume can report ResumeOK/ResumeYield without having looked at LState.ctx after the coroutine ran: a body that ends by tail-calling pcall (which swallowed the cancellation) finishes normally and Resume returns false, 'context canceled' as ordinary values")
}
