package main

// C02 — calls, results, proper tail calls (frame neutrality only).

import (
	"fmt"
	"go/token"
	"go/types"

	"golang.org/x/tools/go/ssa"
)

func init() {
	register(&propInfo{
		ID:    "C02",
		Title: "Calls pass/return exactly the values Lua 5.1 prescribes; tail calls are proper",
		Explanation: "Decided (the one clause with a structural handle — 'return f(args) … without consuming call-stack space'): R02-tailframe — in the OP_TAILCALL handler a Lua callee reuses the running frame (no frame push on that arm, TailCall counter incremented, Fn/Pc/Base/LocalBase rewritten) and a host callee's pushed frame is always followed by callGFunction(L, true); callGFunction removes the caller frame exactly when tailcall is set, after the host function returned, and every path to its return pops exactly one frame (stack.Pop or switchToParentThread); RemoveCallerFrame pops exactly once and re-links the parent; compileReturnStmt rewrites the call of 'return f(args)' (single, non-parenthesised) into OP_TAILCALL; " +
			"R02-frames — OP_CALL's frame literal and callR's agree field by field on how Base/LocalBase/ReturnBase/NArgs/NRet are derived, OP_RETURN pops exactly one frame on every non-coroutine path, and every frame push goes through the overflow guard (R12-full shared). " +
			"R01-operands shared — every handler (OP_SELF for method-call sugar in particular) reads its RK operands before its first register write. R02-copies — every go-inlined copy of a frame/registry helper (initCallFrame, pushCallFrame, closeUpvalues, registry.Set/SetTop/CopyRange/checkSize …; ~130 blocks in state.go and vm.go) has the same statements as the definition it names, so the host-side call path (callR → pushCallFrame) and the VM's CALL/TAILCALL paths set a frame up alike. R02-select — select's range error is raised exactly for a normalised index below 1. NOT decided: argument padding/truncation, vararg relocation, select/unpack, result counts — arithmetic on run-time counts.",
		Trusted: []string{},
		Rules:   []func(*Ctx){ruleSetlistOffsetAfterBatchRead, rulePadCountIsCMinusOne, ruleXpcallCountsFromItsTop, ruleVarargTempGuard, ruleNoSentinelDefaults, ruleParenthesisedReturnCount, ruleAssignResultsByPosition, ruleLastOfRange, ruleTailFrame, ruleFrames, ruleFull, ruleOperandOrder, ruleInlineCopies, ruleSelectBounds, ruleFrameCoversParameters, ruleTailMovesWholeFrame, ruleReturnPadding, ruleSetlistBatchNumber},
	})
}

func ruleTailFrame(c *Ctx) {
	const R = "R02-tailframe"
	c.floor(R, 8)
	p := c.P
	p.computeNoReturn()
	t := p.vmTable()
	o := t.ByName["OP_TAILCALL"]
	if o == nil || o.Handler == nil {
		c.und(R, "handler", "-", "OP_TAILCALL handler not found")
		return
	}
	h := o.Handler
	c.touch(h)
	g := p.G(h)
	pushCF := p.Fn("lua", "(*LState).pushCallFrame")
	callG := p.Fn("lua", "callGFunction")
	isGF := p.Field("lua", "LFunction", "IsG")
	isPush := func(in ssa.Instruction) bool {
		if isCallTo(in, pushCF) {
			return true
		}
		tn, m := invokeName(in)
		return tn == "callFrameStack" && m == "Push"
	}
	isCallGTail := func(in ssa.Instruction) bool {
		if !isCallTo(in, callG) {
			return false
		}
		b, ok := constBool(in.(*ssa.Call).Call.Args[1])
		return ok && b
	}
	npush := 0
	allInstrs(h, func(in ssa.Instruction) {
		if !isPush(in) || !g.Live(in) {
			return
		}
		npush++
		// only on the host-function arm
		onG := false
		for _, cd := range g.CondsAtInstr(in) {
			if _, ok := loadsField(cd.V, isGF); ok && cd.Sense {
				onG = true
			}
		}
		c.check(onG, R, fmt.Sprintf("TAILCALL:push#%d:host-arm-only", npush), p.ipos(in), "a frame is pushed only for a host (Go) callee", "OP_TAILCALL pushes a new frame for a Lua callee: repeated tail calls grow the call stack")
		b, i := after(in)
		okc, _ := g.MustPassBefore(b, i, isCallGTail, isReturn)
		c.check(okc, R, fmt.Sprintf("TAILCALL:push#%d:followed-by-callG(tail)", npush), p.ipos(in), "the pushed host frame is always run through callGFunction(L, true), which removes the caller frame", "a frame pushed by OP_TAILCALL is not always followed by callGFunction(L, true): the caller's frame stays on the stack")
	})
	c.check(npush >= 1, R, "TAILCALL:host-push", p.pos(h.Pos()), fmt.Sprintf("%d push site(s)", npush), "no frame push found on the host arm")
	// Lua arm: TailCall++ and frame fields rewritten in place
	tcF := p.Field("lua", "callFrame", "TailCall")
	okInc := false
	rewritten := map[string]bool{}
	allInstrs(h, func(in ssa.Instruction) {
		st, ok := in.(*ssa.Store)
		if !ok || !g.Live(in) {
			return
		}
		fa, ok := st.Addr.(*ssa.FieldAddr)
		if !ok {
			return
		}
		f := fieldOf(fa)
		if f == nil || f.Pkg() == nil || fa.X.Type().String() != "*"+luaPath+".callFrame" {
			return
		}
		onLua := false
		for _, cd := range g.CondsAtInstr(in) {
			if _, ok := loadsField(cd.V, isGF); ok && !cd.Sense {
				onLua = true
			}
		}
		if !onLua {
			return
		}
		rewritten[f.Name()] = true
		if f == tcF {
			if b, ok := st.Val.(*ssa.BinOp); ok && b.Op == token.ADD {
				okInc = true
			}
		}
	})
	c.check(okInc, R, "TAILCALL:lua-arm:TailCall++", p.pos(h.Pos()), "the reused frame counts the tail call (debug level arithmetic)", "the Lua arm does not count the tail call")
	need := []string{"Fn", "Pc", "Base", "LocalBase", "NArgs"}
	okAll := true
	for _, n := range need {
		if !rewritten[n] {
			okAll = false
		}
	}
	// the reused frame slides back to where the running frame started: its final Base is the Base it had
	baseF := p.Field("lua", "callFrame", "Base")
	var baseStores []*ssa.Store
	allInstrs(h, func(in ssa.Instruction) {
		if st, ok := isFieldStore(in, baseF); ok && g.Live(in) {
			if _, lit := st.Addr.(*ssa.FieldAddr).X.(*ssa.Alloc); lit {
				return // the frame literal of the host arm
			}
			baseStores = append(baseStores, st)
		}
	})
	okBase := false
	if len(baseStores) >= 2 {
		// the last store (dominated by all others) restores a value loaded from cf.Base before any store
		var last *ssa.Store
		for _, s1 := range baseStores {
			isLast := true
			for _, s2 := range baseStores {
				if s1 != s2 && !g.Dominates(s2, s1) {
					isLast = false
				}
			}
			if isLast {
				last = s1
			}
		}
		if last != nil {
			if ld, ok := last.Val.(*ssa.UnOp); ok {
				if _, isBase := loadsField(ld, baseF); isBase {
					okBase = true
					for _, s2 := range baseStores {
						if !g.Dominates(ld, s2) {
							okBase = false
						}
					}
				}
			}
		}
	}
	c.check(okBase, R, "TAILCALL:lua-arm:slides-to-old-Base", p.pos(h.Pos()), "after the arguments were moved down the frame's Base is the Base it had before the tail call", "the reused frame does not slide back to the running frame's own Base (for a vararg caller LocalBase-1 is past its argument block): every tail call from a vararg function leaves registers behind and a long chain ends in 'registry overflow'")
	c.check(okAll, R, "TAILCALL:lua-arm:frame-reused", p.pos(h.Pos()), "Fn, Pc, Base, LocalBase and NArgs of the running frame are overwritten in place", fmt.Sprintf("the Lua arm does not rewrite the running frame in place (rewritten: %v)", sortedKeys(rewritten)))

	// callGFunction
	if fn := c.need(R, "lua", "callGFunction"); fn != nil {
		gg := p.G(fn)
		remove := p.Fn("lua", "(*LState).RemoveCallerFrame")
		sw := p.Fn("lua", "switchToParentThread")
		var tailParam *ssa.Parameter
		for _, pm := range fn.Params {
			if tailParam == nil && types.Identical(pm.Type(), types.Typ[types.Bool]) {
				tailParam = pm
			}
		}
		// host function call
		var host ssa.Instruction
		gfF := p.Field("lua", "LFunction", "GFunction")
		allInstrs(fn, func(in ssa.Instruction) {
			if call, ok := in.(*ssa.Call); ok {
				if _, ok := loadsField(call.Call.Value, gfF); ok {
					host = in
				}
			}
		})
		okRem := false
		for _, cl := range callsTo(fn, remove) {
			conds := gg.CondsAtInstr(cl)
			if len(conds) != 1 {
				continue // the removal must depend on the tailcall flag alone
			}
			for _, cd := range conds {
				flagOK := cd.V == ssa.Value(tailParam)
				if ph, ok := cd.V.(*ssa.Phi); ok && !flagOK {
					// the flag may have been cleared on exactly one path: the host function yielded (result < 0),
					// and the call is turned into an ordinary one — its frame's ReturnBase is redirected to its Base
					// so that the RETURN following the TAILCALL hands the resume values on (F45)
					flagOK = true
					for k, e := range ph.Edges {
						if e == ssa.Value(tailParam) {
							continue
						}
						cleared, isFalse := constBool(e)
						pred := ph.Block().Preds[k]
						yielded, redirected := false, false
						for _, pc := range gg.CondsOnEdge(pred, ph.Block()) {
							if b, ok := pc.V.(*ssa.BinOp); ok && b.Op == token.LSS && pc.Sense {
								if k0, ok := constInt(b.Y); ok && k0 == 0 && host != nil && stripConv(b.X) == host.(ssa.Value) {
									yielded = true
								}
							}
						}
						rbF, baseF := p.Field("lua", "callFrame", "ReturnBase"), p.Field("lua", "callFrame", "Base")
						for _, in := range pred.Instrs {
							if st, ok := isFieldStore(in, rbF); ok {
								if _, ok := loadsField(st.Val, baseF); ok {
									redirected = true
								}
							}
						}
						if !(isFalse && !cleared && yielded && redirected) {
							flagOK = false
						}
					}
				}
				if flagOK && cd.Sense && host != nil && gg.Dominates(host, cl) {
					// the test itself must dominate every return
					domAll := true
					allInstrs(fn, func(r ssa.Instruction) {
						if isReturn(r) && gg.Live(r) && !gg.BlockDom(cd.At, r.Block()) {
							domAll = false
						}
					})
					okRem = domAll
				}
			}
		}
		// F45: a host function that yields from tail position must keep its caller's frame (the flag is cleared)
		hasException := false
		for _, cl := range callsTo(fn, remove) {
			for _, cd := range gg.CondsAtInstr(cl) {
				if _, isPhi := cd.V.(*ssa.Phi); isPhi {
					hasException = true
				}
			}
		}
		c.check(hasException && okRem, R, "callGFunction:yield-in-tail-position-keeps-caller", p.pos(fn.Pos()), "a yielding host function is not tail called: the caller's frame stays and receives the resume values", "callGFunction removes the caller's frame although the host function yielded: a coroutine whose body ends in 'return coroutine.yield(…)' is left without frames and the next resume dereferences a nil frame")
		c.check(okRem, R, "callGFunction:tail→RemoveCallerFrame", p.pos(fn.Pos()), "with tailcall set the caller frame is removed after the host function returned, on every path", "callGFunction does not remove the caller's frame on every tail-call path: host-function tail calls consume call-stack space")
		isPop := func(in ssa.Instruction) bool {
			tn, m := invokeName(in)
			return (tn == "callFrameStack" && m == "Pop") || isCallTo(in, sw)
		}
		okOne, _ := gg.MustPassBefore(fn.Blocks[0], 0, isPop, isReturn)
		twice := false
		allInstrs(fn, func(in ssa.Instruction) {
			if isPop(in) && gg.Live(in) {
				b, i := after(in)
				if gg.walk(b, i, nil, func(x ssa.Instruction) bool { return isPop(x) }) {
					twice = true
				}
			}
		})
		c.check(okOne && !twice, R, "callGFunction:one-pop", p.pos(fn.Pos()), "every path to return pops exactly one frame (stack.Pop or switchToParentThread)", "callGFunction can return having popped no frame or two frames")
	}
	if fn := c.need(R, "lua", "(*LState).RemoveCallerFrame"); fn != nil {
		n := 0
		allInstrs(fn, func(in ssa.Instruction) {
			if tn, m := invokeName(in); tn == "callFrameStack" && m == "Pop" {
				n++
			}
		})
		parentF := p.Field("lua", "callFrame", "Parent")
		relink := false
		allInstrs(fn, func(in ssa.Instruction) {
			if _, ok := isFieldStore(in, parentF); ok {
				relink = true
			}
		})
		c.check(n == 1 && len(fn.Blocks) == 1, R, "RemoveCallerFrame:pops-once", p.pos(fn.Pos()), "exactly one Pop", "RemoveCallerFrame does not pop exactly one frame")
		c.check(relink, R, "RemoveCallerFrame:relinks-parent", p.pos(fn.Pos()), "the moved frame keeps the removed frame's Parent", "RemoveCallerFrame does not re-link Parent: the frame chain skips or repeats a frame")
	}
	// compiler: return f(args) → OP_TAILCALL
	if fn := c.need(R, "lua", "compileReturnStmt"); fn != nil {
		gg := p.G(fn)
		setOp := p.Fn("lua", "(*codeStore).SetOpCode")
		opTail := p.op("OP_TAILCALL")
		adjF := p.Field("ast", "FuncCallExpr", "AdjustRet")
		okc := false
		for _, cl := range callsTo(fn, setOp) {
			if k, ok := constInt(cl.Call.Args[2]); ok && k == opTail {
				for _, cd := range gg.CondsAtInstr(cl) {
					if _, ok := loadsField(cd.V, adjF); ok && !cd.Sense {
						okc = true
					}
				}
			}
		}
		c.check(okc, R, "compileReturnStmt:rewrites-to-TAILCALL", p.pos(fn.Pos()), "a single non-parenthesised call in return position is rewritten to OP_TAILCALL", "'return f(args)' is no longer compiled to OP_TAILCALL (or '(f(args))' is): tail calls consume stack / parenthesised calls lose truncation")
	}
}

// ruleFrames: the two places that build a call frame agree; OP_RETURN pops one frame.
func ruleFrames(c *Ctx) {
	const R = "R02-frames"
	c.floor(R, 3)
	p := c.P
	t := p.vmTable()
	// frame literal field derivations
	frameFields := func(fn *ssa.Function) map[string]string {
		out := map[string]string{}
		allInstrs(fn, func(in ssa.Instruction) {
			st, ok := in.(*ssa.Store)
			if !ok {
				return
			}
			fa, ok := st.Addr.(*ssa.FieldAddr)
			if !ok {
				return
			}
			if _, isAlloc := fa.X.(*ssa.Alloc); !isAlloc {
				return
			}
			if fa.X.Type().String() != "*"+luaPath+".callFrame" {
				return
			}
			if f := fieldOf(fa); f != nil {
				out[f.Name()] = vkey(st.Val)
			}
		})
		return out
	}
	callR := c.need(R, "lua", "(*LState).callR")
	if callR != nil {
		ff := frameFields(callR)
		base := ff["Base"]
		okc := base != "" && ff["LocalBase"] == "("+base+" + c:1)" && ff["Pc"] == "c:0" && ff["TailCall"] == "c:0"
		c.check(okc, R, "callR:frame", p.pos(callR.Pos()), "LocalBase = Base+1, Pc = 0, TailCall = 0", fmt.Sprintf("callR builds an inconsistent frame: %v", ff))
	}
	if o := t.ByName["OP_CALL"]; o != nil && o.Handler != nil {
		ff := frameFields(o.Handler)
		base := ff["Base"]
		okc := base != "" && ff["LocalBase"] == "("+base+" + c:1)" && ff["ReturnBase"] == base && ff["Pc"] == "c:0"
		c.check(okc, R, "OP_CALL:frame", p.pos(o.Handler.Pos()), "Base = ReturnBase = RA, LocalBase = RA+1, Pc = 0", fmt.Sprintf("OP_CALL builds an inconsistent frame: %v", ff))
	}
	if o := t.ByName["OP_RETURN"]; o != nil && o.Handler != nil {
		h := o.Handler
		g := p.G(h)
		sw := p.Fn("lua", "switchToParentThread")
		isPop := func(in ssa.Instruction) bool {
			tn, m := invokeName(in)
			return (tn == "callFrameStack" && m == "Pop") || isCallTo(in, sw)
		}
		okOne, _ := g.MustPassBefore(h.Blocks[0], 0, isPop, isReturn)
		twice := false
		allInstrs(h, func(in ssa.Instruction) {
			if isPop(in) && g.Live(in) {
				b, i := after(in)
				if g.walk(b, i, nil, func(x ssa.Instruction) bool { return isPop(x) }) {
					twice = true
				}
			}
		})
		c.check(okOne && !twice, R, "OP_RETURN:one-pop", p.pos(h.Pos()), "every path pops exactly one frame", "OP_RETURN can finish having popped no frame or two")
	}
}
