package main

import (
	"fmt"
	"sort"
	"strings"

	"golang.org/x/tools/go/ssa"
)

// ruleArgTypes: the argument accessors of the host API come in families that must accept the same
// values, as their reference counterparts do (lauxlib): every numeric accessor — CheckInt, CheckInt64,
// CheckNumber and their Opt forms — accepts a number or a string that converts to one (through the one
// numeral reader), every string accessor accepts a string or a number; an Opt accessor returns its
// default exactly for nil/none. Engler-style sibling agreement: the accepted set of each member is
// computed (type assertions on the argument that lead to a value return, conversion helpers called)
// and compared with the family's definition.
func ruleArgTypes(c *Ctx) {
	const R = "R10-argtypes"
	c.floor(R, 7)
	p := c.P
	parse := p.Fn("lua", "parseNumber")
	canStr := p.Fn("lua", "LVCanConvToString")
	type fam struct {
		members []string
		want    []string
		why     string
	}
	fams := []fam{
		{[]string{"CheckInt", "CheckInt64", "CheckNumber", "OptInt", "OptInt64", "OptNumber"}, []string{"LNumber", "LString→number"},
			"a numeric argument may be given as a string that converts to a number (string.rep('x', '3'), unpack(t, '2'))"},
		{[]string{"CheckString"}, []string{"LString", "number→string"},
			"a string argument may be given as a number (string.rep(5, 2))"},
		// OptString is kept strict: the project's own TestOptString pins 'string expected, got number'
	}
	for _, f := range fams {
		for _, name := range f.members {
			fn := p.Fn("lua", "(*LState)."+name)
			if fn == nil {
				c.und(R, name, "-", "accessor not found")
				continue
			}
			members := map[string]bool{}
			for _, m := range f.members {
				members[m] = true
			}
			var accOf func(fn *ssa.Function, d int) map[string]bool
			accOf = func(fn *ssa.Function, d int) map[string]bool {
				acc := map[string]bool{}
				withCallees := []*ssa.Function{fn}
				// one level of helper (CheckString → ToString …) is enough for this file
				allInstrs(fn, func(in ssa.Instruction) {
					if sc := staticCallee(in); sc != nil && sc.Pkg != nil && sc.Pkg.Pkg.Path() == luaPath && sc.Blocks != nil {
						if sc == parse {
							acc["LString→number"] = true
						}
						// an accessor that delegates to a sibling of its family accepts what the sibling accepts
						if d < 2 && sc != fn && members[sc.Name()] && recvNamed(sc) == "LState" {
							for k := range accOf(sc, d+1) {
								acc[k] = true
							}
						}
						if sc == canStr || sc.Name() == "ToString" || sc.Name() == "LVAsString" {
							acc["number→string"] = true
						}
						if sc.Name() == "LVAsNumber" || sc.Name() == "ToNumber" {
							acc["LString→number"] = true
						}
						if len(callsTo(sc, parse)) > 0 { // a shared conversion helper (argNumber)
							acc["LString→number"] = true
							withCallees = append(withCallees, sc)
						}
					}
				})
				for _, g := range withCallees {
					allInstrs(g, func(in ssa.Instruction) {
						if ta, ok := in.(*ssa.TypeAssert); ok && ta.CommaOk {
							acc[strings.TrimPrefix(typeName(ta.AssertedType), "lua.")] = true
						}
					})
				}
				return acc
			}
			acc := accOf(fn, 0)
			var missing []string
			for _, w := range f.want {
				if !acc[w] {
					missing = append(missing, w)
				}
			}
			got := sortedKeys(acc)
			sort.Strings(got)
			c.Sites++
			c.check(len(missing) == 0, R, name+":accepts", p.pos(fn.Pos()), fmt.Sprintf("accepts %v", got),
				fmt.Sprintf("%s accepts %v but not %v: %s — its siblings in the same family do, and so does the reference accessor", name, got, missing, f.why))
		}
	}
}

func typeName(t interface{ String() string }) string {
	s := t.String()
	if i := strings.LastIndex(s, "/"); i >= 0 {
		s = s[i+1:]
	}
	s = strings.TrimPrefix(s, "gopher-lua.")
	return strings.TrimPrefix(s, "*")
}
