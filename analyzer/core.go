package main

// core.go — loading of /repo, indices over the type-checked program and its SSA form,
// obligations, known findings, evidence and exit codes.  See /verif/DESIGN.md §1.

import (
	_ "embed"
	"encoding/json"
	"fmt"
	"go/ast"
	"go/token"
	"go/types"
	"os"
	"path/filepath"
	"sort"
	"strconv"
	"strings"
	"time"

	"golang.org/x/tools/go/callgraph"
	"golang.org/x/tools/go/callgraph/cha"
	"golang.org/x/tools/go/callgraph/vta"
	"golang.org/x/tools/go/packages"
	"golang.org/x/tools/go/ssa"
	"golang.org/x/tools/go/ssa/ssautil"
)

const luaPath = "github.com/yuin/gopher-lua"

// ---------------------------------------------------------------------------------------------
// Program

type Prog struct {
	Dir   string
	Fset  *token.FileSet
	Pkgs  map[string]*packages.Package // by import path
	SSA   *ssa.Program
	SPkgs map[string]*ssa.Package

	funcs    map[string]*ssa.Function // "<pkgpath>:<relname>"
	srcFuncs []*ssa.Function          // all functions (incl. anonymous) with syntax in repo packages
	declOf   map[*ast.FuncLit]*ssa.Function

	noret   map[*ssa.Function]bool
	noretOK bool

	cg     *callgraph.Graph
	raises map[*ssa.Function]bool
	cgCHA  *callgraph.Graph

	GOOS, GOARCH string
}

func repoPkg(path string) bool {
	return path == luaPath || strings.HasPrefix(path, luaPath+"/")
}

var dumpFuncsMode, dumpFieldsMode bool

func loadProg(dir, goos, goarch string) (*Prog, error) {
	env := append(os.Environ(),
		"GOFLAGS=-mod=mod", "GOPROXY=off", "GOSUMDB=off", "GOTOOLCHAIN=local", "GOWORK=off")
	if goos != "" {
		env = append(env, "GOOS="+goos)
	}
	if goarch != "" {
		env = append(env, "GOARCH="+goarch)
	}
	if goos != "" || goarch != "" {
		env = append(env, "CGO_ENABLED=0")
	}
	cfg := &packages.Config{Mode: packages.LoadAllSyntax, Dir: dir, Env: env, Tests: false}
	pkgs, err := packages.Load(cfg, "./...")
	if err != nil {
		return nil, err
	}
	if dumpFuncsMode {
		if dumpFieldsMode {
			for _, l := range dumpFields(pkgs) {
				fmt.Println(l)
			}
			os.Exit(0)
		}
		for _, l := range dumpFuncs(pkgs) {
			fmt.Println(l)
		}
		os.Exit(0)
	}
	// helper normalisation (normalize.go): only when the tree declares functions the baseline does not know
	typeErrs := func(ps []*packages.Package) int {
		n := 0
		packages.Visit(ps, nil, func(pk *packages.Package) {
			if repoPkg(pk.PkgPath) {
				n += len(pk.Errors)
			}
		})
		return n
	}
	if typeErrs(pkgs) == 0 && os.Getenv("VERIF_NO_NORMALIZE") == "" {
		if ov := normalizeHelpers(*cfg, pkgs); ov != nil {
			try := func(o map[string][]byte) []*packages.Package {
				c2 := *cfg
				c2.Overlay = o
				ps, err := packages.Load(&c2, "./...")
				if err != nil || typeErrs(ps) > 0 {
					return nil
				}
				return ps
			}
			var norm []*packages.Package
			if ov2 := dropUnusedHelpers(*cfg, ov); ov2 != nil {
				norm = try(ov2)
			}
			if norm == nil {
				norm = try(ov)
			}
			if norm != nil {
				pkgs = norm
			} else {
				normalizeLog = append(normalizeLog, "normalised program rejected (type errors); analysing the tree as it is")
			}
		}
		for _, l := range normalizeLog {
			fmt.Println("normalise: " + l)
		}
	}
	p := &Prog{Dir: dir, Pkgs: map[string]*packages.Package{}, SPkgs: map[string]*ssa.Package{},
		funcs: map[string]*ssa.Function{}, declOf: map[*ast.FuncLit]*ssa.Function{}, GOOS: goos, GOARCH: goarch}
	nerr := 0
	var firstErr string
	packages.Visit(pkgs, nil, func(pk *packages.Package) {
		if repoPkg(pk.PkgPath) {
			for _, e := range pk.Errors {
				nerr++
				if firstErr == "" {
					firstErr = e.Error()
				}
			}
		}
	})
	if nerr > 0 {
		return nil, fmt.Errorf("%d load/type errors in repository packages, first: %s", nerr, firstErr)
	}
	for _, pk := range pkgs {
		p.Pkgs[pk.PkgPath] = pk
		p.Fset = pk.Fset
	}
	if len(pkgs) < 5 {
		return nil, fmt.Errorf("only %d packages loaded from %s (expected >= 5)", len(pkgs), dir)
	}
	for _, need := range []string{luaPath, luaPath + "/pm", luaPath + "/parse", luaPath + "/ast"} {
		if p.Pkgs[need] == nil {
			return nil, fmt.Errorf("package %s not loaded", need)
		}
	}
	prog, spkgs := ssautil.AllPackages(pkgs, ssa.InstantiateGenerics)
	prog.Build()
	p.SSA = prog
	for i, sp := range spkgs {
		if sp != nil {
			p.SPkgs[pkgs[i].PkgPath] = sp
		}
	}
	// index functions
	for path, sp := range p.SPkgs {
		if !repoPkg(path) {
			continue
		}
		var add func(fn *ssa.Function)
		add = func(fn *ssa.Function) {
			if fn == nil || fn.Synthetic != "" && fn.Syntax() == nil {
				return
			}
			p.srcFuncs = append(p.srcFuncs, fn)
			if fl, ok := fn.Syntax().(*ast.FuncLit); ok {
				p.declOf[fl] = fn
			}
			for _, a := range fn.AnonFuncs {
				add(a)
			}
		}
		for _, m := range sp.Members {
			switch m := m.(type) {
			case *ssa.Function:
				p.funcs[path+":"+m.Name()] = m
				add(m)
			case *ssa.Type:
				for _, t := range []types.Type{m.Type(), types.NewPointer(m.Type())} {
					ms := prog.MethodSets.MethodSet(t)
					for i := 0; i < ms.Len(); i++ {
						fn := prog.MethodValue(ms.At(i))
						if fn == nil || fn.Pkg != sp || fn.Synthetic != "" {
							continue
						}
						key := path + ":" + fn.RelString(sp.Pkg)
						if _, dup := p.funcs[key]; !dup {
							p.funcs[key] = fn
							add(fn)
						}
					}
				}
			}
		}
	}
	sort.Slice(p.srcFuncs, func(i, j int) bool { return p.srcFuncs[i].Pos() < p.srcFuncs[j].Pos() })
	// rename resolution (normalize.go): an anchor of the baseline that was renamed, or turned from a method
	// into a function, is found under its baseline name as well
	renamedTo = renamePairs(pkgs)
	for _, fn := range p.srcFuncs {
		if isNewHelper(fn) {
			anyNewHelpers = true
		}
	}
	for nk, ok := range renamedTo {
		if fn := p.funcs[nk]; fn != nil && p.funcs[ok] == nil {
			p.funcs[ok] = fn
			fmt.Printf("normalise: %s is the baseline's %s under a new name\n", nk[strings.Index(nk, ":")+1:], ok[strings.Index(ok, ":")+1:])
		}
	}
	return p, nil
}

func short(pkg string) string {
	switch pkg {
	case "lua", "":
		return luaPath
	case "pm", "parse", "ast":
		return luaPath + "/" + pkg
	case "glua":
		return luaPath + "/cmd/glua"
	}
	return pkg
}

// Fn looks up a function by short package and relative name, e.g. ("lua","(*LState).PCall").
func (p *Prog) Fn(pkg, name string) *ssa.Function {
	return p.funcs[short(pkg)+":"+name]
}

func (p *Prog) Pkg(pkg string) *packages.Package { return p.Pkgs[short(pkg)] }
func (p *Prog) SPkg(pkg string) *ssa.Package     { return p.SPkgs[short(pkg)] }

// Obj looks up a package-level object.
// Global: the package-level variable `name` of the baseline (under its current name) as an SSA global.
func (p *Prog) Global(pkg, name string) *ssa.Global {
	sp := p.SPkg(pkg)
	if sp == nil {
		return nil
	}
	if g, ok := sp.Members[name].(*ssa.Global); ok {
		return g
	}
	if o := p.Obj(pkg, name); o != nil {
		g, _ := sp.Members[o.Name()].(*ssa.Global)
		return g
	}
	return nil
}

func (p *Prog) Obj(pkg, name string) types.Object {
	pk := p.Pkg(pkg)
	if pk == nil {
		return nil
	}
	if o := pk.Types.Scope().Lookup(name); o != nil {
		return o
	}
	// a renamed package-level variable: the one variable of the package the baseline does not know that has
	// the type the baseline records for `name`
	if bv, ok := baselineFields[short(pkg)+":$var."+name]; ok {
		var found types.Object
		sc := pk.Types.Scope()
		for _, n := range sc.Names() {
			v, isVar := sc.Lookup(n).(*types.Var)
			if !isVar {
				continue
			}
			if _, known := baselineFields[short(pkg)+":$var."+n]; known || shapeString(v.Type(), 0) != bv.typ {
				continue
			}
			if found != nil {
				return nil // ambiguous
			}
			found = v
		}
		return found
	}
	// a renamed struct type: the one struct type of the package the baseline does not know whose fields
	// have, position by position, the types the baseline records for `name`
	prefix := short(pkg) + ":" + name + "."
	want := map[int]string{}
	for k, bf := range baselineFields {
		if strings.HasPrefix(k, prefix) {
			want[bf.index] = bf.typ
		}
	}
	if len(want) == 0 {
		return nil
	}
	known := map[string]bool{}
	for k := range baselineFields {
		if strings.HasPrefix(k, short(pkg)+":") {
			if !strings.Contains(k, ":$var.") {
				known[k[len(short(pkg))+1:strings.LastIndex(k, ".")]] = true
			}
		}
	}
	var found types.Object
	sc := pk.Types.Scope()
	for _, n := range sc.Names() {
		tn, ok := sc.Lookup(n).(*types.TypeName)
		if !ok || known[n] {
			continue
		}
		st, ok := tn.Type().Underlying().(*types.Struct)
		if !ok || st.NumFields() != len(want) {
			continue
		}
		same := true
		for i := 0; i < st.NumFields(); i++ {
			if fieldTypeString(st.Field(i)) != want[i] {
				same = false
			}
		}
		if same {
			if found != nil {
				return nil // ambiguous
			}
			found = tn
		}
	}
	return found
}

// Field returns the *types.Var of a struct field of a named type.
func (p *Prog) Field(pkg, typ, field string) *types.Var {
	o := p.Obj(pkg, typ)
	if o == nil {
		return nil
	}
	st, ok := o.Type().Underlying().(*types.Struct)
	if !ok {
		return nil
	}
	for i := 0; i < st.NumFields(); i++ {
		if st.Field(i).Name() == field {
			return st.Field(i)
		}
	}
	// a renamed field (normalize.go, baseline_fields.txt): the baseline knows the field's position and type;
	// the field now at that position, of that type, under a name the baseline does not know for this struct,
	// is the same field
	key := short(pkg) + ":" + typ + "."
	if bf, ok := baselineFields[key+field]; ok && bf.index < st.NumFields() {
		cand := st.Field(bf.index)
		if _, known := baselineFields[key+cand.Name()]; !known && fieldTypeString(cand) == bf.typ {
			return cand
		}
	}
	return nil
}

type baselineField struct {
	index int
	typ   string
}

//go:embed baseline_fields.txt
var baselineFieldsTxt string

var baselineFields = func() map[string]baselineField {
	m := map[string]baselineField{}
	for _, l := range strings.Split(baselineFieldsTxt, "\n") {
		parts := strings.Split(strings.TrimSpace(l), "\t")
		if len(parts) == 3 {
			i, _ := strconv.Atoi(parts[1])
			m[parts[0]] = baselineField{i, parts[2]}
		}
	}
	return m
}()

// shapeString: the type with the repository's own named non-struct types (func, array, slice, map, basic)
// replaced by what they stand for, so that renaming such a type does not change the string.
func shapeString(t types.Type, depth int) string {
	q := func(p *types.Package) string { return p.Name() }
	if depth > 4 {
		return types.TypeString(t, q)
	}
	switch x := t.(type) {
	case *types.Named:
		if x.Obj().Pkg() != nil && repoPkg(x.Obj().Pkg().Path()) {
			switch x.Underlying().(type) {
			case *types.Struct, *types.Interface:
			default:
				return shapeString(x.Underlying(), depth+1)
			}
		}
		return types.TypeString(t, q)
	case *types.Pointer:
		return "*" + shapeString(x.Elem(), depth+1)
	case *types.Slice:
		return "[]" + shapeString(x.Elem(), depth+1)
	case *types.Array:
		return fmt.Sprintf("[%d]%s", x.Len(), shapeString(x.Elem(), depth+1))
	case *types.Map:
		return "map[" + shapeString(x.Key(), depth+1) + "]" + shapeString(x.Elem(), depth+1)
	}
	return types.TypeString(t, q)
}

func fieldTypeString(v *types.Var) string {
	return types.TypeString(v.Type(), func(p *types.Package) string { return p.Name() })
}

func dumpFields(pkgs []*packages.Package) []string {
	var out []string
	for _, pk := range pkgs {
		if !repoPkg(pk.PkgPath) || pk.Types == nil {
			continue
		}
		sc := pk.Types.Scope()
		for _, name := range sc.Names() {
			if v, isVar := sc.Lookup(name).(*types.Var); isVar {
				out = append(out, fmt.Sprintf("%s:$var.%s\t0\t%s", pk.PkgPath, name, shapeString(v.Type(), 0)))
				continue
			}
			tn, ok := sc.Lookup(name).(*types.TypeName)
			if !ok {
				continue
			}
			st, ok := tn.Type().Underlying().(*types.Struct)
			if !ok {
				continue
			}
			for i := 0; i < st.NumFields(); i++ {
				out = append(out, fmt.Sprintf("%s:%s.%s\t%d\t%s", pk.PkgPath, name, st.Field(i).Name(), i, fieldTypeString(st.Field(i))))
			}
		}
	}
	sort.Strings(out)
	return out
}

func (p *Prog) pos(pos token.Pos) string {
	if !pos.IsValid() {
		return "-"
	}
	ps := p.Fset.Position(pos)
	rel, err := filepath.Rel(p.Dir, ps.Filename)
	if err != nil || strings.HasPrefix(rel, "..") {
		rel = ps.Filename
	}
	return fmt.Sprintf("%s:%d", rel, ps.Line)
}

// posOf gives the best position for an instruction (falls back to the enclosing function).
func (p *Prog) ipos(in ssa.Instruction) string {
	if in == nil {
		return "-"
	}
	if in.Pos().IsValid() {
		return p.pos(in.Pos())
	}
	if v, ok := in.(ssa.Value); ok {
		for _, r := range *v.Referrers() {
			if r.Pos().IsValid() {
				return p.pos(r.Pos())
			}
		}
	}
	return p.pos(in.Parent().Pos())
}

func (p *Prog) CallGraph() *callgraph.Graph {
	if p.cg == nil {
		p.cg = vta.CallGraph(ssautil.AllFunctions(p.SSA), p.CHAGraph())
	}
	return p.cg
}

func (p *Prog) CHAGraph() *callgraph.Graph {
	if p.cgCHA == nil {
		p.cgCHA = cha.CallGraph(p.SSA)
	}
	return p.cgCHA
}

// fname is a stable, human readable name for a function (closures get parent$N).
var handlerNames = map[*ssa.Function]string{}

func fname(fn *ssa.Function) string {
	if fn == nil {
		return "<nil>"
	}
	if n, ok := handlerNames[fn]; ok {
		return n
	}
	if fn.Pkg != nil {
		return fn.RelString(fn.Pkg.Pkg)
	}
	return fn.String()
}

// ---------------------------------------------------------------------------------------------
// Obligations

type Obl struct {
	Rule       string `json:"rule"`
	Key        string `json:"key"`
	Pos        string `json:"pos"`
	Status     string `json:"status"` // discharged | violated | undecided | known
	Detail     string `json:"detail"`
	Nontrivial bool   `json:"nontrivial"`
}

type ruleStat struct {
	Instances int `json:"instances"`
	Floor     int `json:"floor"`
}

type Ctx struct {
	P      *Prog
	Prop   string
	Tier   string
	Config string // e.g. "linux/amd64"
	Obls   []Obl
	Stats  map[string]*ruleStat
	Funcs  map[string]bool // functions analysed
	Sites  int             // call sites / instructions inspected
	seen   map[string]bool
}

func newCtx(p *Prog, prop, tier string) *Ctx {
	cfg := "native"
	if p != nil && (p.GOOS != "" || p.GOARCH != "") {
		cfg = p.GOOS + "/" + p.GOARCH
	}
	return &Ctx{P: p, Prop: prop, Tier: tier, Config: cfg, Stats: map[string]*ruleStat{}, Funcs: map[string]bool{}, seen: map[string]bool{}}
}

func (c *Ctx) add(rule, key, pos, status, detail string, nontrivial bool) {
	key = strings.Join(strings.Fields(key), "_") // keys never contain blanks (KNOWN_FINDINGS is blank-separated)
	full := rule + ":" + key
	if c.seen[full+"|"+status+"|"+detail] {
		return
	}
	c.seen[full+"|"+status+"|"+detail] = true
	c.Obls = append(c.Obls, Obl{Rule: rule, Key: full, Pos: pos, Status: status, Detail: detail, Nontrivial: nontrivial})
	st := c.Stats[rule]
	if st == nil {
		st = &ruleStat{}
		c.Stats[rule] = st
	}
	st.Instances++
}

// ok: a discharged obligation that needed a path / dataflow / table argument.
func (c *Ctx) ok(rule, key, pos, detail string) { c.add(rule, key, pos, "discharged", detail, true) }

// okT: a discharged obligation that was a mere presence test.
func (c *Ctx) okT(rule, key, pos, detail string) { c.add(rule, key, pos, "discharged", detail, false) }
func (c *Ctx) bad(rule, key, pos, detail string) { c.add(rule, key, pos, "violated", detail, true) }
func (c *Ctx) und(rule, key, pos, detail string) { c.add(rule, key, pos, "undecided", detail, true) }

// check is the common two-way form.
func (c *Ctx) check(cond bool, rule, key, pos, okDetail, badDetail string) bool {
	if cond {
		c.ok(rule, key, pos, okDetail)
	} else {
		c.bad(rule, key, pos, badDetail)
	}
	return cond
}

// floor records the frozen minimum number of instances of a rule.
func (c *Ctx) floor(rule string, n int) {
	st := c.Stats[rule]
	if st == nil {
		st = &ruleStat{}
		c.Stats[rule] = st
	}
	st.Floor = n
}

// need resolves an anchor function; an unresolved anchor is an undecided obligation (exit 2).
func (c *Ctx) need(rule, pkg, name string) *ssa.Function {
	fn := c.P.Fn(pkg, name)
	if fn == nil || len(fn.Blocks) == 0 {
		c.und(rule, "anchor:"+pkg+"."+name, "-", "anchor function not found in the loaded program")
		return nil
	}
	c.Funcs[fname(fn)] = true
	return fn
}

func (c *Ctx) touch(fn *ssa.Function) {
	if fn != nil {
		c.Funcs[fname(fn)] = true
	}
}

// ---------------------------------------------------------------------------------------------
// Known findings

type knownEntry struct {
	Kind string // known | fixed
	Prop string
	Key  string
	Text string
}

func loadKnown(path string) ([]knownEntry, error) {
	data, err := os.ReadFile(path)
	if err != nil {
		if os.IsNotExist(err) {
			return nil, nil
		}
		return nil, err
	}
	var out []knownEntry
	for _, line := range strings.Split(string(data), "\n") {
		line = strings.TrimSpace(line)
		if line == "" || strings.HasPrefix(line, "#") {
			continue
		}
		var e knownEntry
		switch {
		case strings.HasPrefix(line, "known:"):
			e.Kind = "known"
			line = strings.TrimSpace(strings.TrimPrefix(line, "known:"))
		case strings.HasPrefix(line, "fixed:"):
			e.Kind = "fixed"
			line = strings.TrimSpace(strings.TrimPrefix(line, "fixed:"))
		default:
			return nil, fmt.Errorf("malformed line in known findings: %q", line)
		}
		fields := strings.Fields(line)
		rest := []string{}
		for _, f := range fields {
			switch {
			case strings.HasPrefix(f, "property=") && e.Prop == "":
				e.Prop = strings.TrimPrefix(f, "property=")
			case strings.HasPrefix(f, "key=") && e.Key == "":
				e.Key = strings.TrimPrefix(f, "key=")
			default:
				rest = append(rest, f)
			}
		}
		e.Text = strings.Join(rest, " ")
		out = append(out, e)
	}
	return out, nil
}

// ---------------------------------------------------------------------------------------------
// Evidence / reporting

type propInfo struct {
	ID          string
	Title       string
	Explanation string   // decided / not decided clauses
	Trusted     []string // trusted base
	Rules       []func(*Ctx)
	RuleDoc     string
}

var props = map[string]*propInfo{}

func register(pi *propInfo) { props[pi.ID] = pi }

var commonTrusted = []string{
	"go/types and go/ssa (x/tools v0.29.0) model the compiled program faithfully",
	"go/packages loads exactly the files the real build compiles (build tags, GOOS/GOARCH of the run)",
	"axiom: a call through the LState.Panic field never returns (both in-tree values end in panic)",
	"VTA/CHA call graphs over-approximate dynamic calls (no reflection-based calls into the interpreter)",
}

func finish(c *Ctx, verifDir string, start time.Time, seed int64, cmdline string, extra map[string]interface{}) int {
	pi := props[c.Prop]
	known, kerr := loadKnown(filepath.Join(verifDir, "KNOWN_FINDINGS.txt"))
	if kerr != nil {
		fmt.Printf("CHECKER-BROKEN: %v\n", kerr)
		return 2
	}
	knownSet := map[string]knownEntry{}
	for _, k := range known {
		if k.Kind == "known" && k.Prop == c.Prop {
			knownSet[k.Key] = k
		}
	}
	// floors
	rules := []string{}
	for r := range c.Stats {
		rules = append(rules, r)
	}
	sort.Strings(rules)
	for _, r := range rules {
		st := c.Stats[r]
		if st.Instances < st.Floor {
			c.und(r, "floor", "-", fmt.Sprintf("rule matched %d instances, frozen floor is %d — the rule lost its anchors", st.Instances, st.Floor))
		}
	}
	sort.SliceStable(c.Obls, func(i, j int) bool { return c.Obls[i].Key < c.Obls[j].Key })

	nViol, nUnd, nKnown, nDis, nNon := 0, 0, 0, 0, 0
	distinct := map[string]bool{}
	_ = os.MkdirAll(filepath.Join(verifDir, "evidence", "violations"), 0o755)
	// remove stale violation files of this property
	if old, _ := filepath.Glob(filepath.Join(verifDir, "evidence", "violations", c.Prop+"-*.json")); len(old) > 0 {
		for _, f := range old {
			os.Remove(f)
		}
	}
	printedKnown := map[string]bool{}
	var lines []string
	for i := range c.Obls {
		o := &c.Obls[i]
		switch o.Status {
		case "discharged":
			nDis++
		case "violated":
			if k, ok := knownSet[o.Key]; ok {
				o.Status = "known"
				nKnown++
				if !printedKnown[o.Key] {
					printedKnown[o.Key] = true
					lines = append(lines, fmt.Sprintf("KNOWN-FINDING: property=%s %s %s [%s] %s", c.Prop, o.Key, k.Text, o.Pos, o.Detail))
				}
			} else {
				nViol++
				path := filepath.Join(verifDir, "evidence", "violations", fmt.Sprintf("%s-%d.json", c.Prop, nViol))
				rec := map[string]interface{}{"property": c.Prop, "obligation": o, "config": c.Config, "repo": c.P.Dir,
					"replay": fmt.Sprintf("./check %s quick  # the obligation key %q must be reported again", c.Prop, o.Key)}
				b, _ := json.MarshalIndent(rec, "", " ")
				os.WriteFile(path, b, 0o644)
				lines = append(lines, fmt.Sprintf("violation: %s at %s — %s", o.Key, o.Pos, o.Detail))
				lines = append(lines, fmt.Sprintf("VIOLATION property=%s replay=%s", c.Prop, path))
			}
		case "undecided":
			nUnd++
			lines = append(lines, fmt.Sprintf("UNDECIDED: %s at %s — %s", o.Key, o.Pos, o.Detail))
		}
		if o.Nontrivial && !distinct[o.Key] {
			distinct[o.Key] = true
			nNon++
		}
	}
	for _, l := range lines {
		fmt.Println(l)
	}
	// samples: up to 12 obligations, preferring non-discharged then nontrivial
	var samples []Obl
	for _, want := range []string{"violated", "known", "undecided"} {
		for _, o := range c.Obls {
			if o.Status == want && len(samples) < 12 {
				samples = append(samples, o)
			}
		}
	}
	perRule := map[string]int{}
	for _, o := range c.Obls {
		if o.Status == "discharged" && o.Nontrivial && perRule[o.Rule] < 2 && len(samples) < 40 {
			perRule[o.Rule]++
			samples = append(samples, o)
		}
	}
	funcs := []string{}
	for f := range c.Funcs {
		funcs = append(funcs, f)
	}
	sort.Strings(funcs)
	ev := map[string]interface{}{
		"property_id": c.Prop,
		"tier":        c.Tier,
		"seed":        seed,
		"level":       "other",
		"wall_s":      time.Since(start).Seconds(),
		"violations":  nViol,
		"assumptions": append(append([]string{}, commonTrusted...), pi.Trusted...),
		"coverage": map[string]interface{}{
			"explanation":         pi.Explanation,
			"rule":                "obligations are enumerated from /repo's type-checked source by the rules listed in rule_stats (DESIGN.md §3); one obligation per rule instance (function, call site, opcode, table row). An obligation is non-trivial when discharging it needed a path, dataflow, table-agreement or call-graph argument rather than a presence test; distinct = distinct obligation keys.",
			"evaluations":         len(c.Obls),
			"distinct_nontrivial": nNon,
			"obligations":         len(c.Obls),
			"discharged":          nDis,
			"known_findings":      nKnown,
			"undecided":           nUnd,
			"violated":            nViol,
			"checker_cmd":         cmdline,
			"trusted_base":        append(append([]string{}, commonTrusted...), pi.Trusted...),
			"rule_stats":          c.Stats,
			"functions_analysed":  funcs,
			"n_functions":         len(funcs),
			"sites_inspected":     c.Sites,
			"config":              c.Config,
			"samples":             samples,
			"exhaustive":          false,
		},
	}
	for k, v := range extra {
		ev["coverage"].(map[string]interface{})[k] = v
	}
	b, _ := json.MarshalIndent(ev, "", " ")
	if err := os.WriteFile(filepath.Join(verifDir, "evidence", c.Prop+".json"), b, 0o644); err != nil {
		fmt.Printf("CHECKER-BROKEN: cannot write evidence: %v\n", err)
		return 2
	}
	fmt.Printf("%s [%s %s]: %d obligations, %d discharged, %d known findings, %d violated, %d undecided; %d functions, %d rules\n",
		c.Prop, c.Tier, c.Config, len(c.Obls), nDis, nKnown, nViol, nUnd, len(funcs), len(c.Stats))
	for _, r := range rules {
		fmt.Printf("  rule %-18s instances=%d floor=%d\n", r, c.Stats[r].Instances, c.Stats[r].Floor)
	}
	switch {
	case nViol > 0:
		return 1
	case nUnd > 0:
		return 2
	}
	return 0
}
