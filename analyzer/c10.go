package main

// C10 — Go API: object ops share the VM's helpers; stack indices are guarded by the frame base.

import (
	"fmt"
	"go/token"
	"go/types"
	"strings"

	"golang.org/x/tools/go/ssa"
)

func init() {
	register(&propInfo{
		ID:    "C10",
		Title: "Go API: faithful value stack, exact call contract, object ops equal Lua ops",
		Explanation: "Decided: R10-share — 'object-level calls give exactly what the corresponding Lua expression gives' holds by construction iff the API forwards to the VM's own helper: GetTable/SetTable/GetField/SetField/Equal/RawEqual/LessThan/Concat/GetMetatable/Next/GetGlobal/SetGlobal are single forwarding calls with their parameters in order and the stated constants, and the matching VM handler calls the same helper; " +
			"R10-bounds — 'never read or disturb values belonging to callers': in Get and Replace every register access whose index derives from an API index is guarded by a comparison with the current frame's base (negative indices) or with the registry top (positive indices); indexToReg returns -1 below the base; Remove and Insert clamp at the base; Pop raises on underflow before popping; GetTop is top minus base; SetTop never cuts below the base. " +
			"R04-events shared — ObjLen consults __len for every operand type that is not a string, as the VM's OP_LEN does. R02-copies — every go-inlined copy of a frame/registry helper (initCallFrame, pushCallFrame, closeUpvalues, registry.Set/SetTop/CopyRange/checkSize …; ~130 blocks in state.go and vm.go) has the same statements as the definition it names, so the host-side call path (callR → pushCallFrame) and the VM's CALL/TAILCALL paths set a frame up alike. R10-retcount — in every host function of the libraries, a constant `return k` is reached only after at least k pushes, and a `return 0` is not preceded by pushes on every path (a prepared result is not dropped). R10-argtypes — every numeric argument accessor (CheckInt, CheckInt64, CheckNumber, OptInt, OptInt64, OptNumber) accepts a number or a string that converts to one, through the one numeral reader; CheckString accepts a string or a number. NOT decided: the NRet contract of Call/PCall/CallByParam, callGFunction's result selection, growth under pushes.",
		Trusted: []string{},
		Rules:   []func(*Ctx){ruleInsertTopWithinCheckedCapacity, ruleLessThanSameType, rulePseudoIndexNeedsFrame, ruleSetFieldStores, ruleProtectedMetatable, ruleShare, ruleApiBounds, ruleEvents, ruleInlineCopies, ruleRetCount, ruleStaleRegistrySlice, ruleArgTypes, ruleApiHoles, ruleRestore, ruleSurplusArgs, ruleIndexHandlerGetsCurrentLink, ruleAbsoluteTopRestoredAbsolutely},
	})
}

type fwdSpec struct {
	api, helper string
	consts      map[int]string // arg index (after receiver/L) -> constant key
	handler     string         // opcode whose handler must call the same helper ("" none)
}

func ruleShare(c *Ctx) {
	const R = "R10-share"
	c.floor(R, 16)
	p := c.P
	t := p.vmTable()
	specs := []fwdSpec{
		{"(*LState).GetTable", "(*LState).getField", nil, "OP_GETTABLE"},
		{"(*LState).SetTable", "(*LState).setField", nil, "OP_SETTABLE"},
		{"(*LState).GetField", "(*LState).getFieldString", nil, "OP_GETTABLEKS"},
		{"(*LState).SetField", "(*LState).setFieldString", nil, "OP_SETTABLEKS"},
		{"(*LState).Equal", "equals", map[int]string{3: "c:false"}, "OP_EQ"},
		{"(*LState).RawEqual", "equals", map[int]string{3: "c:true"}, ""},
		{"(*LState).LessThan", "lessThan", nil, "OP_LT"},
		{"(*LState).GetMetatable", "(*LState).metatable", map[int]string{2: "c:false"}, ""},
		{"(*LState).Next", "(*LTable).Next", nil, ""},
		{"(*LState).RawGet", "(*LTable).RawGet", nil, ""},
		{"(*LState).RawGetInt", "(*LTable).RawGetInt", nil, ""},
		{"(*LState).RawSetInt", "(*LTable).RawSetInt", nil, ""},
		{"(*LState).ForEach", "(*LTable).ForEach", nil, ""},
	}
	for _, s := range specs {
		api := c.need(R, "lua", s.api)
		helper := p.Fn("lua", s.helper)
		if api == nil || helper == nil {
			if helper == nil {
				c.und(R, "anchor:"+s.helper, "-", "not found")
			}
			continue
		}
		calls := callsTo(api, helper)
		okc := len(calls) == 1 && len(api.Blocks) == 1
		why := "is not a single forwarding call of " + s.helper
		if okc {
			cl := calls[0]
			// parameters forwarded in order (skipping constants)
			pi := 0
			if api.Signature.Recv() != nil && helper.Signature.Recv() == nil {
				pi = 0 // receiver becomes the L argument
			}
			params := api.Params
			next := 0
			for i, a := range cl.Call.Args {
				if want, isConst := s.consts[i]; isConst {
					if vkey(a) != want {
						okc = false
						why = fmt.Sprintf("passes %s where %s is required", vkey(a), want)
					}
					continue
				}
				// must be the next parameter in order
				found := false
				for next < len(params) {
					if stripMI(a) == ssa.Value(params[next]) {
						found = true
						next++
						break
					}
					next++
				}
				if !found {
					okc = false
					why = "does not forward its parameters in order"
				}
			}
			_ = pi
			// only calls allowed besides the helper: none
			ncalls := 0
			allInstrs(api, func(in ssa.Instruction) {
				if _, ok := in.(*ssa.Call); ok {
					ncalls++
				}
			})
			if ncalls != 1 {
				okc = false
				why = "does more than forwarding"
			}
		}
		c.Sites++
		c.check(okc, R, "forward:"+s.api, p.pos(api.Pos()), "single forwarding call of "+s.helper+" with parameters in order", s.api+" "+why+": the Go API and the Lua operator can give different results")
		if s.handler != "" {
			if o := t.ByName[s.handler]; o != nil && o.Handler != nil {
				c.check(len(callsTo(o.Handler, helper)) >= 1, R, "handler:"+s.handler+"→"+s.helper, p.pos(o.Handler.Pos()), "the VM handler uses the same helper", "the handler of "+s.handler+" no longer calls "+s.helper+": API and operator diverge")
			}
		}
	}
	// Concat → stringConcat over its pushed values; restores top
	if fn := c.need(R, "lua", "(*LState).Concat"); fn != nil {
		sc := p.Fn("lua", "stringConcat")
		setTop := p.Fn("lua", "(*registry).SetTop")
		g := p.G(fn)
		okc := false
		for _, cl := range callsTo(fn, sc) {
			for _, st := range callsTo(fn, setTop) {
				if g.Dominates(cl, st) && strings.Contains(vkey(st.Call.Args[1]), "Top(") {
					okc = true
				}
			}
		}
		c.check(okc, R, "forward:(*LState).Concat", p.pos(fn.Pos()), "uses the VM's stringConcat and restores the stack top", "Concat does not go through stringConcat / does not restore the top it found")
		if o := t.ByName["OP_CONCAT"]; o != nil && o.Handler != nil {
			c.check(len(callsTo(o.Handler, sc)) == 1, R, "handler:OP_CONCAT→stringConcat", p.pos(o.Handler.Pos()), "same helper", "OP_CONCAT no longer uses stringConcat")
		}
	}
	// GetGlobal / SetGlobal go through GetField / SetField on the globals table
	for api, via := range map[string]string{"(*LState).GetGlobal": "(*LState).GetField", "(*LState).SetGlobal": "(*LState).SetField"} {
		fn := c.need(R, "lua", api)
		if fn == nil {
			continue
		}
		okc := false
		for _, cl := range callsTo(fn, p.Fn("lua", via)) {
			k := vkey(cl.Call.Args[1])
			gi, _ := p.intConst("lua", "GlobalsIndex")
			okc = strings.Contains(k, fmt.Sprintf("Get(p:ls,c:%d)", gi))
		}
		c.check(okc, R, "forward:"+api, p.pos(fn.Pos()), "field access on Get(GlobalsIndex) with metamethods", api+" does not access the globals table through "+via)
	}
	// ObjLen mirrors OP_LEN: string length, __len, table Len()
	if fn := c.need(R, "lua", "(*LState).ObjLen"); fn != nil {
		lenFn := p.Fn("lua", "(*LTable).Len")
		okc := len(callsTo(fn, lenFn)) == 1 && len(callsTo(fn, p.Fn("lua", "(*LState).metaOp1"))) == 1
		c.check(okc, R, "ObjLen:len-sources", p.pos(fn.Pos()), "__len first, then the table's raw length", "ObjLen no longer consults __len and (*LTable).Len")
		if o := t.ByName["OP_LEN"]; o != nil && o.Handler != nil {
			c.check(len(callsTo(o.Handler, lenFn)) == 1, R, "handler:OP_LEN→Len", p.pos(o.Handler.Pos()), "same raw length", "OP_LEN no longer uses (*LTable).Len")
		}
	}
}

func ruleApiBounds(c *Ctx) {
	const R = "R10-bounds"
	c.floor(R, 10)
	p := c.P
	p.computeNoReturn()
	regGet, regSet := p.Fn("lua", "(*registry).Get"), p.Fn("lua", "(*registry).Set")
	clb := p.Fn("lua", "(*LState).currentLocalBase")
	top := p.Fn("lua", "(*registry).Top")
	isCallOf := func(v ssa.Value, f *ssa.Function) bool {
		call, ok := stripConv(v).(*ssa.Call)
		return ok && call.Call.StaticCallee() == f
	}
	for _, name := range []string{"(*LState).Get", "(*LState).Replace"} {
		fn := c.need(R, "lua", name)
		if fn == nil {
			continue
		}
		g := p.G(fn)
		n := 0
		allInstrs(fn, func(in ssa.Instruction) {
			if !isCallTo(in, regGet, regSet) || !g.Live(in) {
				return
			}
			n++
			c.Sites++
			idx := in.(*ssa.Call).Call.Args[1]
			key := fmt.Sprintf("%s:access#%d", name, n)
			fromTop := strings.Contains(vkey(idx), "Top(")
			guard := false
			for _, cd := range g.CondsAtInstr(in) {
				b, ok := cd.V.(*ssa.BinOp)
				if !ok || stripConv(b.X) != stripConv(idx) {
					continue
				}
				op := b.Op
				if !cd.Sense {
					op = negate(op)
				}
				if fromTop && isCallOf(b.Y, clb) && op == token.GEQ {
					guard = true // tidx >= base
				}
				if !fromTop && isCallOf(b.Y, top) && op == token.LSS {
					guard = true // reg < top
				}
			}
			if fromTop {
				c.check(guard, R, key, p.ipos(in), "negative index: guarded by idx >= currentLocalBase()", "a negative stack index can reach registers below the current frame's base: the host function reads or overwrites its caller's values")
			} else {
				c.check(guard, R, key, p.ipos(in), "positive index: guarded by reg < Top()", "a positive stack index beyond the top is accessed instead of yielding nil / being ignored")
			}
		})
		c.check(n >= 2, R, name+":accesses", p.pos(fn.Pos()), fmt.Sprintf("%d register accesses analysed", n), "register accesses not found")
	}
	if fn := c.need(R, "lua", "(*LState).indexToReg"); fn != nil {
		g := p.G(fn)
		okc := false
		allInstrs(fn, func(in ssa.Instruction) {
			r, ok := in.(*ssa.Return)
			if !ok || !g.Live(in) {
				return
			}
			if k, isc := constInt(r.Results[0]); isc && k == -1 {
				for _, cd := range g.CondsAtInstr(in) {
					if b, ok := cd.V.(*ssa.BinOp); ok && b.Op == token.LSS && cd.Sense && isCallOf(b.Y, clb) {
						okc = true
					}
				}
			}
		})
		c.check(okc, R, "indexToReg:below-base→-1", p.pos(fn.Pos()), "an index below the frame base maps to -1", "indexToReg maps indices below the frame base to real registers")
	}
	if fn := c.need(R, "lua", "(*LState).Pop"); fn != nil {
		g := p.G(fn)
		regPop := p.Fn("lua", "(*registry).Pop")
		getTop := p.Fn("lua", "(*LState).GetTop")
		okc := false
		for _, cl := range callsTo(fn, regPop) {
			for _, cd := range g.CondsAtInstr(cl) {
				if b, ok := cd.V.(*ssa.BinOp); ok && neHolds(b, cd) && isCallOf(b.X, getTop) {
					okc = true
				}
			}
		}
		c.check(okc, R, "Pop:underflow-raises", p.pos(fn.Pos()), "Pop raises before popping below the frame base", "Pop can remove values that belong to the caller (no underflow test)")
	}
	if fn := c.need(R, "lua", "(*LState).GetTop"); fn != nil {
		okc := false
		allInstrs(fn, func(in ssa.Instruction) {
			if r, ok := in.(*ssa.Return); ok {
				if b, ok := r.Results[0].(*ssa.BinOp); ok && b.Op == token.SUB && isCallOf(b.X, top) && isCallOf(b.Y, clb) {
					okc = true
				}
			}
		})
		c.check(okc, R, "GetTop:top-minus-base", p.pos(fn.Pos()), "GetTop = registry top - frame base", "GetTop is not relative to the current frame's base")
	}
	if fn := c.need(R, "lua", "(*LState).SetTop"); fn != nil {
		g := p.G(fn)
		setTop := p.Fn("lua", "(*registry).SetTop")
		okc := true
		n := 0
		for _, cl := range callsTo(fn, setTop) {
			n++
			arg := cl.Call.Args[1]
			if isCallOf(arg, clb) {
				continue // clamps to the base
			}
			guard := false
			for _, cd := range g.CondsAtInstr(cl) {
				if b, ok := cd.V.(*ssa.BinOp); ok && stripConv(b.X) == stripConv(arg) && isCallOf(b.Y, clb) {
					op := b.Op
					if !cd.Sense {
						op = negate(op)
					}
					if op == token.GEQ {
						guard = true
					}
				}
			}
			if !guard {
				okc = false
			}
		}
		c.check(okc && n >= 2, R, "SetTop:never-below-base", p.pos(fn.Pos()), "the new top is either >= base or clamped to the base", "SetTop can cut the registry below the current frame's base (the caller's values are discarded)")
	}
	if fn := c.need(R, "lua", "(*LState).Remove"); fn != nil {
		g := p.G(fn)
		okc := true
		n := 0
		allInstrs(fn, func(in ssa.Instruction) {
			if !isCallTo(in, regSet) || !g.Live(in) {
				return
			}
			n++
			lower := false
			for _, cd := range g.CondsAt(in.Block()) {
				if b, ok := cd.V.(*ssa.BinOp); ok && isCallOf(b.Y, clb) {
					op := b.Op
					if !cd.Sense {
						op = negate(op)
					}
					if op == token.GEQ {
						lower = true
					}
				}
			}
			if !lower {
				okc = false
			}
		})
		c.check(okc && n > 0, R, "Remove:not-below-base", p.pos(fn.Pos()), "shifting starts at or above the frame base", "Remove can shift registers below the frame base")
	}
}

// ruleRetCount: a host function returns the number of results it pushed. For every `return k` with a
// constant k in a function of type LGFunction whose paths to that return are loop-free, the number of
// values pushed on each path is compared with k: fewer pushes than k hands out whatever lies below
// (arguments), pushes with k == 0 drop a result the code evidently meant to return.
func ruleRetCount(c *Ctx) {
	const R = "R10-retcount"
	c.floor(R, 120)
	p := c.P
	pushL := p.Fn("lua", "(*LState).Push")
	pushR := p.Fn("lua", "(*registry).Push")
	for _, fn := range p.srcFuncs {
		if fn.Pkg == nil || fn.Pkg.Pkg.Path() != luaPath || fn.Signature.Recv() != nil {
			continue
		}
		sig := fn.Signature
		if sig.Params().Len() != 1 || sig.Results().Len() != 1 || !strings.HasSuffix(sig.Params().At(0).Type().String(), ".LState") {
			continue
		}
		if bt, ok := sig.Results().At(0).Type().(*types.Basic); !ok || bt.Kind() != types.Int {
			continue
		}
		g := p.G(fn)
		loops := g.loops()
		inLoop := map[*ssa.BasicBlock]bool{}
		for _, li := range loops {
			for b := range li.Body {
				inLoop[b] = true
			}
		}
		// pushes per block
		npush := map[*ssa.BasicBlock]int{}
		other := map[*ssa.BasicBlock]bool{} // calls that may push an unknown number (helpers taking L)
		for _, b := range fn.Blocks {
			for i, in := range b.Instrs {
				if cut := g.Cut[b]; cut >= 0 && i > cut {
					break
				}
				if _, isCall := in.(*ssa.Call); !isCall {
					continue
				}
				if isCallTo(in, pushL, pushR) {
					npush[b]++
					continue
				}
				if sc := staticCallee(in); sc != nil && sc.Pkg != nil && sc.Pkg.Pkg.Path() == luaPath {
					switch sc.Name() {
					case "Call", "PCall", "CallByParam", "XMoveTo", "Insert", "SetTop", "Pop", "Remove", "Replace", "callR":
						other[b] = true
					}
					// helpers that return a count themselves are handled by the non-constant return
				}
			}
		}
		nret := 0
		for _, b := range fn.Blocks {
			if !g.LiveBlock(b) {
				continue
			}
			ret, ok := b.Instrs[len(b.Instrs)-1].(*ssa.Return)
			if !ok {
				continue
			}
			k, isK := constInt(ret.Results[0])
			if !isK || !g.Live(ret) {
				continue
			}
			// min/max pushes over loop-free paths entry → b (DFS over predecessors; give up at loops)
			memo := map[*ssa.BasicBlock][2]int{}
			busy := map[*ssa.BasicBlock]bool{}
			giveUp := false
			var rec func(x *ssa.BasicBlock) [2]int
			rec = func(x *ssa.BasicBlock) [2]int {
				if v, ok := memo[x]; ok {
					return v
				}
				if inLoop[x] || busy[x] || other[x] {
					giveUp = true
					return [2]int{0, 0}
				}
				busy[x] = true
				defer delete(busy, x)
				preds := g.Preds(x)
				res := [2]int{npush[x], npush[x]}
				if len(preds) > 0 {
					mn, mx := 1<<30, -1
					for _, pr := range preds {
						v := rec(pr)
						if v[0] < mn {
							mn = v[0]
						}
						if v[1] > mx {
							mx = v[1]
						}
					}
					res = [2]int{mn + npush[x], mx + npush[x]}
				}
				memo[x] = res
				return res
			}
			mm := rec(b)
			if giveUp {
				continue
			}
			nret++
			c.Sites++
			key := fmt.Sprintf("%s:return#%d", fname(fn), nret)
			switch {
			case int64(mm[1]) < k: // on every path (infeasible type-switch fall-throughs make the minimum unreliable)
				c.bad(R, key, p.ipos(ret), fmt.Sprintf("%s returns %d value(s) although no path to this return pushes more than %d: the caller receives whatever lay below (its own arguments)", fname(fn), k, mm[1]))
			case k == 0 && mm[0] > 0:
				c.bad(R, key, p.ipos(ret), fmt.Sprintf("%s pushes %d value(s) and then returns 0: the result it prepared is dropped (string.match without a match must return nil, i.e. one value: select('#', …) sees 0)", fname(fn), mm[0]))
			default:
				c.ok(R, key, p.ipos(ret), fmt.Sprintf("returns %d after pushing %d..%d", k, mm[0], mm[1]))
			}
		}
	}
}
