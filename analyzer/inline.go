package main

import (
	"bytes"
	"fmt"
	"go/ast"
	"go/printer"
	"go/token"
	"regexp"
	"sort"
	"strings"
)

// ruleInlineCopies: state.go and vm.go contain ~130 hand-free copies of a dozen small functions
// (initCallFrame, pushCallFrame, closeUpvalues, registry.Set/SetTop/CopyRange/checkSize …) produced by
// the go-inline text inliner; each copy is a block
//
//	// this section is inlined by go-inline
//	// source function is 'func (ls *LState) initCallFrame(cf *callFrame) ' in '_state.go'
//	{ <parameter bindings>; <body> }
//
// and the function itself is still defined (callR → pushCallFrame, CALL → inlined copy, TAILCALL →
// both). "The callee sees exactly the supplied arguments on every call path alike" needs all copies to
// agree with the definition: the rule compares, on the syntax tree, the statements of every marked block
// (after its parameter bindings) with the body of the definition it names. Comments and layout are
// ignored; any difference in code is reported with the enclosing function.
var inlineSrcRe = regexp.MustCompile(`source function is 'func (?:\((\w+) \*?(\w+)\) )?(\w+)\(`)

func ruleInlineCopies(c *Ctx) {
	const R = "R02-copies"
	c.floor(R, 100)
	p := c.P
	pk := p.Pkg("lua")
	norm := func(n ast.Node) string {
		var buf bytes.Buffer
		printer.Fprint(&buf, token.NewFileSet(), n)
		return strings.Join(strings.Fields(buf.String()), " ")
	}
	// definitions by "Recv.Name"
	defs := map[string]*ast.FuncDecl{}
	for _, f := range pk.Syntax {
		for _, d := range f.Decls {
			fd, ok := d.(*ast.FuncDecl)
			if !ok || fd.Body == nil {
				continue
			}
			name := fd.Name.Name
			if fd.Recv != nil && len(fd.Recv.List) == 1 {
				t := fd.Recv.List[0].Type
				if st, ok := t.(*ast.StarExpr); ok {
					t = st.X
				}
				if id, ok := t.(*ast.Ident); ok {
					name = id.Name + "." + name
				}
			}
			defs[name] = fd
		}
	}
	counts := map[string]int{}
	for _, f := range pk.Syntax {
		fname := p.Fset.Position(f.Pos()).Filename
		if !strings.HasSuffix(fname, "state.go") && !strings.HasSuffix(fname, "vm.go") {
			continue
		}
		// all blocks, by position
		var blocks []*ast.BlockStmt
		encl := map[*ast.BlockStmt]string{}
		for _, d := range f.Decls {
			fd, ok := d.(*ast.FuncDecl)
			if !ok || fd.Body == nil {
				continue
			}
			ast.Inspect(fd.Body, func(n ast.Node) bool {
				if b, ok := n.(*ast.BlockStmt); ok {
					blocks = append(blocks, b)
					encl[b] = fd.Name.Name
				}
				return true
			})
		}
		sort.Slice(blocks, func(i, j int) bool { return blocks[i].Lbrace < blocks[j].Lbrace })
		for _, cg := range f.Comments {
			txt := cg.Text()
			if !strings.Contains(txt, "this section is inlined by go-inline") {
				continue
			}
			m := inlineSrcRe.FindStringSubmatch(txt)
			if m == nil {
				c.und(R, "marker", p.pos(cg.Pos()), "inlined-section marker without a recognisable source function")
				continue
			}
			name := m[3]
			if m[2] != "" {
				name = m[2] + "." + m[3]
			}
			// the block that follows the marker
			i := sort.Search(len(blocks), func(i int) bool { return blocks[i].Lbrace > cg.End() })
			if i == len(blocks) || p.Fset.Position(blocks[i].Lbrace).Line > p.Fset.Position(cg.End()).Line+1 {
				c.und(R, "marker:"+name, p.pos(cg.Pos()), "no block follows the inlined-section marker")
				continue
			}
			blk := blocks[i]
			def := defs[name]
			counts[name+"@"+encl[blk]]++
			key := fmt.Sprintf("%s:in:%s#%d", name, encl[blk], counts[name+"@"+encl[blk]])
			c.Sites++
			if def == nil {
				c.bad(R, key, p.pos(blk.Pos()), "the function this block is a copy of ("+name+") is no longer defined in the package")
				continue
			}
			nparams := 0
			if def.Recv != nil {
				nparams += len(def.Recv.List)
			}
			for _, fl := range def.Type.Params.List {
				nparams += len(fl.Names)
			}
			body := def.Body.List
			stmts := blk.List
			// leading parameter bindings: name := argument
			nb := 0
			for nb < len(stmts) && nb < nparams && len(stmts)-nb > len(body) {
				as, ok := stmts[nb].(*ast.AssignStmt)
				if !ok || as.Tok != token.DEFINE || len(as.Lhs) != 1 {
					break
				}
				nb++
			}
			stmts = stmts[nb:]
			diff := ""
			if len(stmts) != len(body) {
				diff = fmt.Sprintf("%d statements after the bindings, the definition has %d", len(stmts), len(body))
			} else {
				for k := range body {
					if a, b := norm(stmts[k]), norm(body[k]); a != b {
						diff = fmt.Sprintf("statement %d differs: copy has `%s`, definition has `%s`", k+1, clip(a, 110), clip(b, 110))
						break
					}
				}
			}
			if diff == "" {
				c.ok(R, key, p.pos(blk.Pos()), "identical to the definition")
			} else {
				c.bad(R, key, p.pos(blk.Pos()), fmt.Sprintf("the inlined copy of %s in %s no longer agrees with the function's definition (%s): the call paths that run the copy and those that call the function now set frames/registers up differently (f(x) and pcall(f, x), or a call and a tail call, disagree)", name, encl[blk], diff))
			}
		}
	}
}

func clip(s string, n int) string {
	if len(s) > n {
		return s[:n] + "…"
	}
	return s
}
