package main

// absint.go — a small path-sensitive reachability evaluator: "which instructions of fn can execute when
// these values are known to be …". Integer and boolean operations over known values are folded; an If
// with a known condition follows that arm only, any other If follows both. It never runs the program:
// unknown values stay unknown. Used where a rule has to tell the arms of a `switch c { case 'x', 'o': }`
// apart — in SSA a multi-valued case is an or-chain whose target block is dominated by none of the tests.

import (
	"go/constant"
	"go/token"
	"go/types"

	"golang.org/x/tools/go/ssa"
)

type aval struct {
	isInt bool
	b     bool
	i     int64
}

func aInt(i int64) aval { return aval{isInt: true, i: i} }
func aBool(b bool) aval { return aval{b: b} }

// reachGiven returns the instructions of fn reachable from its entry given the oracle's knowledge.
func reachGiven(fn *ssa.Function, oracle func(v ssa.Value) (aval, bool), stop ...func(ssa.Instruction) bool) map[ssa.Instruction]bool {
	return reachGivenW(fn, oracle, nil, stop...)
}

// reachGivenW additionally reports every concretely known value computed for an instruction to watch
// (the same instruction may be reported with different values on different paths).
func reachGivenW(fn *ssa.Function, oracle func(v ssa.Value) (aval, bool), watch func(v ssa.Value, a aval), stop ...func(ssa.Instruction) bool) map[ssa.Instruction]bool {
	reached := map[ssa.Instruction]bool{}
	if len(fn.Blocks) == 0 {
		return reached
	}
	type edge struct{ from, to *ssa.BasicBlock }
	visits := map[edge]int{}
	widened := map[edge]bool{}
	var run func(b, pred *ssa.BasicBlock, env map[ssa.Value]aval)
	run = func(b, pred *ssa.BasicBlock, env map[ssa.Value]aval) {
		e := edge{pred, b}
		if visits[e] >= 3 {
			// widen: once more with nothing but the oracle known, so that counted loops are left
			if widened[e] {
				return
			}
			widened[e] = true
			env = map[ssa.Value]aval{}
		}
		visits[e]++
		get := func(v ssa.Value) (aval, bool) {
			if bv, ok := constBool(v); ok {
				return aBool(bv), true
			}
			if c, ok := v.(*ssa.Const); ok {
				if iv, ok := constInt(c); ok {
					return aInt(iv), true
				}
				if c.Value != nil && c.Value.Kind() == constant.Int {
					if u, ok := constant.Uint64Val(c.Value); ok {
						return aInt(int64(u)), true // an unsigned constant above MaxInt64: the bits
					}
				}
				return aval{}, false
			}
			if a, ok := env[v]; ok {
				return a, true
			}
			if a, ok := oracle(v); ok {
				return a, true
			}
			if cv, ok := v.(*ssa.Convert); ok {
				if a, ok := env[cv.X]; ok && a.isInt {
					return a, true
				}
				if a, ok := oracle(cv.X); ok && a.isInt {
					return a, true
				}
			}
			return aval{}, false
		}
		for _, in := range b.Instrs {
			reached[in] = true
			if len(stop) > 0 && stop[0](in) {
				return // a call that does not return
			}
			if watch != nil {
				// operands of stores and conversions are reported where they are used
				for _, op := range in.Operands(nil) {
					if *op != nil {
						if a, ok := get(*op); ok {
							watch(*op, a)
						}
					}
				}
			}
			switch x := in.(type) {
			case *ssa.Phi:
				if a, ok := oracle(x); ok {
					// what the caller states about a variable holds wherever the variable is defined
					env[x] = a
					continue
				}
				for k, ed := range x.Edges {
					if b.Preds[k] == pred {
						if a, ok := get(ed); ok {
							env[x] = a
						} else {
							delete(env, x)
						}
					}
				}
			case *ssa.BinOp:
				a, ok1 := get(x.X)
				c2, ok2 := get(x.Y)
				if !ok1 || !ok2 {
					continue
				}
				if a.isInt && c2.isInt && isUnsignedType(x.X.Type()) {
					// unsigned 64-bit arithmetic (the bits are kept in the int64)
					ua, ub := uint64(a.i), uint64(c2.i)
					switch x.Op {
					case token.EQL:
						env[x] = aBool(ua == ub)
					case token.NEQ:
						env[x] = aBool(ua != ub)
					case token.LSS:
						env[x] = aBool(ua < ub)
					case token.LEQ:
						env[x] = aBool(ua <= ub)
					case token.GTR:
						env[x] = aBool(ua > ub)
					case token.GEQ:
						env[x] = aBool(ua >= ub)
					case token.ADD:
						env[x] = aInt(int64(ua + ub))
					case token.SUB:
						env[x] = aInt(int64(ua - ub))
					case token.MUL:
						env[x] = aInt(int64(ua * ub))
					case token.QUO:
						if ub != 0 {
							env[x] = aInt(int64(ua / ub))
						}
					case token.REM:
						if ub != 0 {
							env[x] = aInt(int64(ua % ub))
						}
					}
				} else if a.isInt && c2.isInt {
					switch x.Op {
					case token.MUL:
						env[x] = aInt(a.i * c2.i)
					case token.QUO:
						if c2.i != 0 {
							env[x] = aInt(a.i / c2.i)
						}
					case token.EQL:
						env[x] = aBool(a.i == c2.i)
					case token.NEQ:
						env[x] = aBool(a.i != c2.i)
					case token.LSS:
						env[x] = aBool(a.i < c2.i)
					case token.LEQ:
						env[x] = aBool(a.i <= c2.i)
					case token.GTR:
						env[x] = aBool(a.i > c2.i)
					case token.GEQ:
						env[x] = aBool(a.i >= c2.i)
					case token.ADD:
						env[x] = aInt(a.i + c2.i)
					case token.SUB:
						env[x] = aInt(a.i - c2.i)
					}
				} else if !a.isInt && !c2.isInt {
					switch x.Op {
					case token.EQL:
						env[x] = aBool(a.b == c2.b)
					case token.NEQ:
						env[x] = aBool(a.b != c2.b)
					}
				}
			case *ssa.UnOp:
				if x.Op == token.NOT {
					if a, ok := get(x.X); ok && !a.isInt {
						env[x] = aBool(!a.b)
					}
				}
			case *ssa.If:
				cp := func() map[ssa.Value]aval {
					m := make(map[ssa.Value]aval, len(env))
					for k, v := range env {
						m[k] = v
					}
					return m
				}
				if a, ok := get(x.Cond); ok && !a.isInt {
					if a.b {
						run(b.Succs[0], b, env)
					} else {
						run(b.Succs[1], b, env)
					}
				} else {
					// the arm that leaves the loop first: the visit budget is global, and the path that
					// skips a loop is the one whose values are still known
					s0, s1 := b.Succs[0], b.Succs[1]
					if canReach(s0, b) && !canReach(s1, b) {
						s0, s1 = s1, s0
					}
					run(s0, b, cp())
					run(s1, b, cp())
				}
				return
			case *ssa.Jump:
				run(b.Succs[0], b, env)
				return
			case *ssa.Return, *ssa.Panic:
				return
			}
		}
	}
	run(fn.Blocks[0], nil, map[ssa.Value]aval{})
	return reached
}

func isUnsignedType(t types.Type) bool {
	b, ok := t.Underlying().(*types.Basic)
	return ok && b.Info()&types.IsUnsigned != 0
}

var reachMemo = map[[2]*ssa.BasicBlock]bool{}

// canReach: there is a path of at least one edge from a to b.
func canReach(a, b *ssa.BasicBlock) bool {
	k := [2]*ssa.BasicBlock{a, b}
	if r, ok := reachMemo[k]; ok {
		return r
	}
	seen := map[*ssa.BasicBlock]bool{}
	var dfs func(x *ssa.BasicBlock) bool
	dfs = func(x *ssa.BasicBlock) bool {
		if x == b {
			return true
		}
		if seen[x] {
			return false
		}
		seen[x] = true
		for _, s := range x.Succs {
			if dfs(s) {
				return true
			}
		}
		return false
	}
	r := a == b
	if !r {
		r = dfs(a)
	}
	reachMemo[k] = r
	return r
}
