#!/bin/sh
# Behaviour-preserving variant test: shifts every line (comments after the package clause and before
# every func), renames some locals, re-formats; the obligation keys and verdicts must be identical to
# those of the unchanged tree. Works on a scratch copy, removed at the end.
set -e
export GOFLAGS=-mod=mod GOPROXY=off GOSUMDB=off GOTOOLCHAIN=local GOWORK=off
D=$(mktemp -d /tmp/vpres.XXXX)
trap 'cd /; rm -rf "$D" /tmp/keys_base.$$ /tmp/keys_var.$$' EXIT
rsync -a --exclude .git /repo/ "$D/"
cd "$D"
for f in *.go pm/*.go parse/lexer.go ast/*.go; do
  case $f in *_test.go) continue;; esac
  python3 - "$f" <<'PY'
import sys,re
f=sys.argv[1]
s=open(f).read()
s=re.sub(r'(?m)^(package \w+)$', r'\1\n\n// shifted\n// shifted\n// shifted\n', s, count=1)
s=re.sub(r'(?m)^func ', '\n// pad\nfunc ', s)
open(f,'w').write(s)
PY
done
sed -i 's/\blastinst\b/lastWord/g; s/\bfuncreg\b/calleeReg/g; s/\bnamesassigned\b/nAssigned/g; s/\bdistance\b/dist/g' compile.go
sed -i 's/\bcurobj\b/cur/g; s/\bgfnret\b/nres/g' state.go vm.go _state.go _vm.go
# parameters too: rules identify them by position and type, never by name
sed -i 's/\blhs\b/lft/g; s/\brhs\b/rgt/g; s/\btailcall\b/istail/g; s/\bbaseframe\b/bfr/g; s/\brequiredSize\b/needSize/g; s/\bvalue1\b/vala/g; s/\bvalue2\b/valb/g; s/\braw\b/israw/g; s/\bhaserror\b/herr/g' *.go
sed -i 's/\brecLevel\b/depth0/g; s/\blimit\b/lim/g' pm/pm.go
gofmt -w *.go pm/*.go parse/lexer.go ast/*.go
go build ./...
cd /verif
for i in 01 02 03 04 05 06 07 08 09 10 11 12 13 14 15 16 17 18 19 20; do
  ./bin/verifcheck -prop C$i -verif /verif -no-evidence -keys 2>&1 | awk -F'\t' 'NF>=2{print $1"\t"$2}' ; done | sort > /tmp/keys_base.$$
for i in 01 02 03 04 05 06 07 08 09 10 11 12 13 14 15 16 17 18 19 20; do
  ./bin/verifcheck -prop C$i -repo "$D" -verif /verif -no-evidence -keys 2>&1 | awk -F'\t' 'NF>=2{print $1"\t"$2}' ; done | sort > /tmp/keys_var.$$
echo "obligations: base $(wc -l < /tmp/keys_base.$$) variant $(wc -l < /tmp/keys_var.$$)"
if diff /tmp/keys_base.$$ /tmp/keys_var.$$; then echo "PRESERVED: identical keys and verdicts"; else echo "DIFFERENT"; exit 1; fi
