#!/usr/bin/env python3
"""Hand-written seeded variants for the thorough tier's checker self-validation (DESIGN Appendix B).
Each entry: (property, id, expected violation-key substring, [(file, old, new), ...]).
`python3 tools/mutants_src.py` merges them into /verif/mutants/<prop>.json, keeping the entries that
were registered from sub-agent seeds (source seeded/...)."""
import json, os, collections
V = os.path.dirname(os.path.dirname(os.path.abspath(__file__)))
M = []
def m(prop, mid, expect, *edits):
    M.append((prop, mid, expect, [dict(file=f, old=o, new=n) for f, o, n in edits]))

# ---- C01
m("C01", "C01-fold-mod-fmod", "R01-fold:op:%", ("compile.go", "return &constLValueExpr{Value: luaModulo(lvalue, rvalue)}", "return &constLValueExpr{Value: LNumber(math.Mod(float64(lvalue), float64(rvalue)))}"))
m("C01", "C01-fold-div-as-mul", "R01-fold:op:/", ("compile.go", "return &constLValueExpr{Value: lvalue / rvalue}", "return &constLValueExpr{Value: lvalue * (1 / rvalue)}"))
m("C01", "C01-fold-unm-zero-minus", "R01-fold:op:unm", ("compile.go", "return &constLValueExpr{Value: LNumber(-value)}", "return &constLValueExpr{Value: LNumber(0 - value)}"))
m("C01", "C01-decode-eq-c-mask", "R01-decode:OP_EQ:inst.?", ("vm.go", "\t\t\tC := int(inst>>9) & 0x1ff //GETC\n\t\t\tret := equals(L, L.rkValue(B), L.rkValue(C), false)", "\t\t\tC := int(inst>>9) & 0xff //GETC\n\t\t\tret := equals(L, L.rkValue(B), L.rkValue(C), false)"))
m("C01", "C01-decode-settableks-shift", "R01-decode:OP_SETTABLEKS:inst.?", ("vm.go", "\t\t\tC := int(inst>>9) & 0x1ff //GETC\n\t\t\tL.setFieldString(reg.Get(RA), L.rkString(B), L.rkValue(C))", "\t\t\tC := int(inst>>8) & 0x1ff //GETC\n\t\t\tL.setFieldString(reg.Get(RA), L.rkString(B), L.rkValue(C))"))
m("C01", "C01-alloc-reuse-page", "R01-alloc", ("alloc.go", "\t\tal.fptrs = make([]float64, 0, al.size)\n\t\tal.fheader", "\t\tal.fptrs = al.fptrs[:0]\n\t\tal.fheader"))
m("C01", "C01-setter-mask", "R01-layout:setter:C", ("opcode.go", "*inst = (*inst & 0xfffc01ff) | uint32((arg&0x1ff)<<9)", "*inst = (*inst & 0xfffc01ff) | uint32((arg&0xff)<<9)"))
m("C01", "C01-jmp-no-bias", "R01-decode:OP_JMP", ("vm.go", "\t\t\tSbx := int(inst&0x3ffff) - opMaxArgSbx //GETSBX\n\t\t\tcf.Pc += Sbx\n\t\t\treturn 0\n\t\t},\n\t\tfunc(L *LState, inst uint32, baseframe *callFrame) int { //OP_EQ", "\t\t\tSbx := int(inst&0x3ffff) - opMaxArgBx //GETSBX\n\t\t\tcf.Pc += Sbx\n\t\t\treturn 0\n\t\t},\n\t\tfunc(L *LState, inst uint32, baseframe *callFrame) int { //OP_EQ"))
# ---- C02
m("C02", "C02-callg-no-remove-caller", "R02-tailframe:callGFunction:tail", ("vm.go", "\tif tailcall {\n\t\tL.currentFrame = L.RemoveCallerFrame()\n\t}", "\tif tailcall && gfnret >= 0 {\n\t\tL.currentFrame = L.RemoveCallerFrame()\n\t}"))
m("C02", "C02-return-paren-call-tail", "R02-tailframe:compileReturnStmt", ("compile.go", "\t\t\tif ex.AdjustRet { // return (func()): exactly one value, whatever the call left above it\n", "\t\t\tif false { // return (func())\n"))
m("C02", "C02-removecaller-no-relink", "R02-tailframe:RemoveCallerFrame:relinks", ("state.go", "\tparentsParentFrame := parentFrame.Parent\n\t*parentFrame = *currentFrame\n\tparentFrame.Parent = parentsParentFrame\n", "\t*parentFrame = *currentFrame\n"))
# ---- C03
m("C03", "C03-inner-arm-no-close", "R03-close:(*LState).PCall$1$1:reclaim", ("state.go", "\t\t\t\t\t\tls.closeUpvalues(base)\n", ""))
m("C03", "C03-raise-closes-all-again", "R03-close:(*LState).raiseError:closer", ("state.go", "func (ls *LState) raiseError(level int, format string, args ...interface{}) {\n", "func (ls *LState) raiseError(level int, format string, args ...interface{}) {\n\tif !ls.hasErrorFunc {\n\t\tls.closeAllUpvalues()\n\t}\n"))
m("C03", "C03-while-no-close-before-backjump", "R03-scopeexit:while", ("compile.go", "\tcompileChunk(context, stmt.Stmts, false)\n\tcontext.CloseUpvalues()\n\tcontext.Code.AddASbx(OP_JMP, 0, condlabel, eline(stmt))", "\tcompileChunk(context, stmt.Stmts, false)\n\tcontext.Code.AddASbx(OP_JMP, 0, condlabel, eline(stmt))"))
m("C03", "C03-break-conditional-close", "R03-flagtime:compileBreakStmt", ("compile.go", "\t\t\tcontext.Code.AddABC(OP_CLOSE, block.Parent.LocalVars.LastIndex(), 0, 0, sline(stmt))\n\t\t\tcontext.Code.AddASbx(OP_JMP, 0, label, sline(stmt))", "\t\t\tif block.RefUpvalue {\n\t\t\t\tcontext.Code.AddABC(OP_CLOSE, block.Parent.LocalVars.LastIndex(), 0, 0, sline(stmt))\n\t\t\t}\n\t\t\tcontext.Code.AddASbx(OP_JMP, 0, label, sline(stmt))"))
m("C03", "C03-goto-literal-placeholder", "R03-closeA:compileGotoStmt", ("compile.go", "context.Code.AddABC(OP_CLOSE, context.RegTop(), 0, 0, sline(stmt))", "context.Code.AddABC(OP_CLOSE, 0, 0, 0, sline(stmt))"))
m("C03", "C03-return-close-after-copy", "R03-scopeexit:vm:OP_RETURN", ("vm.go", "\t\t\tB := int(inst & 0x1ff) //GETB\n\t\t\t// this section is inlined by go-inline\n\t\t\t// source function is 'func (ls *LState) closeUpvalues(idx int) ' in '_state.go'\n\t\t\t{\n\t\t\t\tls := L\n\t\t\t\tidx := lbase\n\t\t\t\tif ls.uvcache != nil {", "\t\t\tB := int(inst & 0x1ff) //GETB\n\t\t\t// this section is inlined by go-inline\n\t\t\t// source function is 'func (ls *LState) closeUpvalues(idx int) ' in '_state.go'\n\t\t\tif B != 1 {\n\t\t\t\tls := L\n\t\t\t\tidx := lbase\n\t\t\t\tif ls.uvcache != nil {"))
# ---- C04
m("C04", "C04-swap-div-mod", "R04-events:objectArith:OP_DIV", ("vm.go", "\tcase OP_DIV:\n\t\tevent = \"__div\"\n\tcase OP_MOD:\n\t\tevent = \"__mod\"", "\tcase OP_DIV:\n\t\tevent = \"__mod\"\n\tcase OP_MOD:\n\t\tevent = \"__div\""))
m("C04", "C04-rawget-via-gettable", "R04-raw:root:baseRawGet", ("baselib.go", "L.Push(L.RawGet(L.CheckTable(1), L.CheckAny(2)))", "L.Push(L.GetTable(L.CheckTable(1), L.CheckAny(2)))"))
m("C04", "C04-le-fallback-not-swapped", "R04-events:OP_LE:fallback", ("vm.go", "ret = !objectRationalWithError(L, rhs, lhs, \"__lt\")", "ret = !objectRationalWithError(L, lhs, rhs, \"__lt\")"))
m("C04", "C04-arith-push-rhs-first", "R04-events:objectArith:handler-call", ("vm.go", "\t\tL.reg.Push(op)\n\t\tL.reg.Push(lhs)\n\t\tL.reg.Push(rhs)\n\t\tL.Call(2, 1)\n\t\treturn L.reg.Pop()\n\t}\n\tL.RaiseError(fmt.Sprintf(\"cannot perform %v operation", "\t\tL.reg.Push(op)\n\t\tL.reg.Push(rhs)\n\t\tL.reg.Push(lhs)\n\t\tL.Call(2, 1)\n\t\treturn L.reg.Pop()\n\t}\n\tL.RaiseError(fmt.Sprintf(\"cannot perform %v operation"))
m("C04", "C04-metaop2-right-first", "R04-events:metaOp2:left-first", ("state.go", "\tif mt := ls.metatable(value1, true); mt != LNil {\n\t\tif tb, ok := mt.(*LTable); ok {\n\t\t\tif ret := tb.RawGetString(event); ret != LNil {\n\t\t\t\treturn ret\n\t\t\t}\n\t\t}\n\t}\n\tif mt := ls.metatable(value2, true); mt != LNil {", "\tif mt := ls.metatable(value2, true); mt != LNil {\n\t\tif tb, ok := mt.(*LTable); ok {\n\t\t\tif ret := tb.RawGetString(event); ret != LNil {\n\t\t\t\treturn ret\n\t\t\t}\n\t\t}\n\t}\n\tif mt := ls.metatable(value1, true); mt != LNil {"))
# ---- C05 (kept from the first thorough trial)
m("C05", "C05-inner-arm-no-currentFrame", "R05-restore:(*LState).PCall$1$1:currentFrame=", ("state.go", "\t\t\t\t\t\tls.stack.SetSp(sp)\n\t\t\t\t\t\tls.currentFrame = ls.stack.Last()\n\t\t\t\t\t\tls.closeUpvalues(base)", "\t\t\t\t\t\tls.stack.SetSp(sp)\n\t\t\t\t\t\tls.closeUpvalues(base)"))
m("C05", "C05-panic-mode-not-restored", "R05-restore:(*LState).PCall$1:Panic=oldpanic", ("state.go", "\tdefer func() {\n\t\tls.Panic = oldpanic\n\t\tls.hasErrorFunc = false", "\tdefer func() {\n\t\tls.hasErrorFunc = false"))
m("C05", "C05-outer-arm-no-settop", "R05-restore:(*LState).PCall$1:reg.SetTop(base)", ("state.go", "\t\t\tls.closeUpvalues(base)\n\t\t\tls.reg.SetTop(base)\n\t\t}\n\t\tls.stack.SetSp(sp)", "\t\t\tls.closeUpvalues(base)\n\t\t\tif errfunc == nil {\n\t\t\t\tls.reg.SetTop(base)\n\t\t\t}\n\t\t}\n\t\tls.stack.SetSp(sp)"))
m("C05", "C05-dostring-unprotected", "R05-convert:(*LState).DoString:via-PCall", ("auxlib.go", "\t\tif err := ls.pushProtected(fn); err != nil {\n\t\t\treturn err\n\t\t}\n\t\treturn ls.PCall(0, MultRet, nil)\n\t}\n}\n\n/* }}} */\n\n/* GopherLua original APIs {{{ */", "\t\tif err := ls.pushProtected(fn); err != nil {\n\t\t\treturn err\n\t\t}\n\t\tls.Call(0, MultRet)\n\t\treturn nil\n\t}\n}\n\n/* }}} */\n\n/* GopherLua original APIs {{{ */"))
# ---- C06
m("C06", "C06-resume-dead-check-dropped", "R06-guard:resumeThread:not-dead", ("coroutinelib.go", "\tif th.Dead {\n\t\tmsg := \"can not resume a dead thread\"\n\t\tif wrapped {\n\t\t\tL.RaiseError(msg)\n\t\t\treturn 0\n\t\t}\n\t\tL.Push(LFalse)\n\t\tL.Push(LString(msg))\n\t\treturn 2\n\t}\n", ""))
m("C06", "C06-wrapped-arm-no-release", "R06-release:threadRun$1", ("vm.go", "\t\t\t\t\tL.G.CurrentThread = parent\n\t\t\t\t\tL.Parent = nil\n\t\t\t\t\tL.kill()\n", ""))
m("C06", "C06-return-does-not-kill", "R06-killarg:handler[OP_RETURN]:switch", ("vm.go", "\t\t\t\tswitchToParentThread(L, n, false, true)\n\t\t\t\treturn 1", "\t\t\t\tswitchToParentThread(L, n, false, false)\n\t\t\t\treturn 1"))
# ---- C07
m("C07", "C07-upvalue-ceiling-dropped", "R07-narrow:compileFunctionExpr:FunctionProto.NumUpvalues", ("compile.go", "\tif len(context.Proto.DbgUpvalues) > math.MaxUint8 {\n\t\traiseCompileError(context, context.Proto.LineDefined, \"too many upvalues\")\n\t}\n", ""))
m("C07", "C07-loadrk-no-check", "R07-rk:loadRk", ("compile.go", "\tcindex := context.ConstIndex(cnst)\n\tif cindex <= opMaxIndexRk {", "\tcindex := context.ConstIndex(cnst)\n\tif cindex <= opMaxArgBx {"))
m("C07", "C07-constindex-no-ceiling", "R07-bx:ConstIndex", ("compile.go", "\tif v > opMaxArgBx {\n\t\traiseCompileError(fc, fc.Proto.LineDefined, \"too many constants\")\n\t}\n", ""))
m("C07", "C07-patchcode-one-sided", "R07-sbx:patchCode:SetSbx", ("compile.go", "if d > opMaxArgSbx || d < -opMaxArgSbx {", "if d > opMaxArgSbx {"))
m("C07", "C07-forloop-no-check", "R07-sbx:compileNumberForStmt", ("compile.go", "\tif flpc-bodypc >= opMaxArgSbx {\n\t\traiseCompileError(context, sline(stmt), \"too long to jump.\")\n\t}\n", ""))
m("C07", "C07-extword-zero", "R07-extword", ("compile.go", "\t\t\t\tcode.Add(uint32(c), sline(line))\n\t\t\t} else {", "\t\t\t\tc = 0\n\t\t\t\tcode.Add(uint32(c), sline(line))\n\t\t\t} else {"))
m("C07", "C07-setlist-not-skipped", "R07-skipgroup:patchCode-skips:OP_SETLIST", ("compile.go", "\t\t\tif opGetArgC(inst) == 0 {\n\t\t\t\t// the next word is the batch number, not an instruction\n\t\t\t\tpc++\n\t\t\t\tmoven = 0\n\t\t\t\tcontinue\n\t\t\t}", "\t\t\tif opGetArgC(inst) == 0 {\n\t\t\t\tmoven = 0\n\t\t\t}"))
m("C07", "C07-final-return-conditional", "R07-ret", ("compile.go", "\tcontext.Code.AddABC(OP_RETURN, 0, 1, 0, eline(funcexpr))\n\tcontext.EndScope()", "\tif len(funcexpr.Stmts) > 0 {\n\t\tcontext.Code.AddABC(OP_RETURN, 0, 1, 0, eline(funcexpr))\n\t}\n\tcontext.EndScope()"))
m("C07", "C07-add-lines-out-of-step", "R07-parallel:Add:lock-step", ("compile.go", "\t\tcd.codes[cd.pc] = inst\n\t\tcd.lines[cd.pc] = line", "\t\tcd.codes[cd.pc] = inst"))
m("C07", "C07-label-ceiling-dropped", "R07-sbx:NewLabel", ("compile.go", "\tif ret > opMaxArgSbx {\n\t\traiseCompileError(fc, fc.Proto.LineDefined, \"function or expression too complex\")\n\t}\n", ""))
# ---- C08
m("C08", "C08-raisecompile-plain-panic", "R08-panics:compile:raiseCompileError", ("compile.go", "\tpanic(&CompileError{context: context, Line: line, Message: msg})", "\t_ = &CompileError{context: context, Line: line, Message: msg}\n\tpanic(msg)"))
m("C08", "C08-lexer-error-string-panic", "R08-panics:parse:(*Lexer).Error", ("parse/lexer.go", "\tpanic(lx.scanner.Error(lx.Token.Str, message))", "\tpanic(lx.scanner.Error(lx.Token.Str, message).Error())"))
m("C08", "C08-scanstring-no-eof-exit", "R08-eof:(*Scanner).scanString", ("parse/lexer.go", "\t\tif ch == '\\n' || ch == '\\r' || ch < 0 {\n\t\t\treturn sc.Error(buf.String(), \"unterminated string\")", "\t\tif ch == '\\n' || ch == '\\r' {\n\t\t\treturn sc.Error(buf.String(), \"unterminated string\")"))
m("C08", "C08-multiline-no-eof-exit", "R08-eof:(*Scanner).scanMultilineB", ("parse/lexer.go", "\t\tif ch < 0 {\n\t\t\treturn sc.Error(buf.String(), \"unterminated multiline string\")", "\t\tif ch == 0 {\n\t\t\treturn sc.Error(buf.String(), \"unterminated multiline string\")"))
m("C08", "C08-compilestmt-drops-goto", "R08-astkinds:stmt:ast.GotoStmt", ("compile.go", "\tcase *ast.GotoStmt:\n\t\tcompileGotoStmt(context, st)\n", ""))
m("C08", "C08-relop-missing-ge", "R08-astkinds:operator:ast.RelationalOpExpr:compileRelationalOpExprAux:>=", ("compile.go", "\tcase \">=\":\n\t\tcode.AddABC(OP_LE, 0^flip, c, b, sline(expr))\n", ""))
# ---- C09
m("C09", "C09-rawsetint-boundary", "R09-route:(*LTable).RawSetInt", ("table.go", "func (tb *LTable) RawSetInt(key int, value LValue) {\n\tif key < 1 || key >= MaxArrayIndex {", "func (tb *LTable) RawSetInt(key int, value LValue) {\n\tif key < 1 || key > MaxArrayIndex {"))
m("C09", "C09-rawgetint-no-hash", "R09-route:(*LTable).RawGetInt", ("table.go", "\tif key < 1 || key >= MaxArrayIndex {\n\t\treturn tb.RawGetH(LNumber(key))\n\t}\n\tif tb.array == nil {\n\t\treturn LNil\n\t}\n\tindex := int(key) - 1", "\tif tb.array == nil {\n\t\treturn LNil\n\t}\n\tindex := int(key) - 1"))
m("C09", "C09-delete-from-k2i", "R09-owner:k2i-delete", ("table.go", "\t\t// TODO tb.keys and tb.k2i should also be removed\n\t\tdelete(tb.strdict, key)", "\t\tdelete(tb.k2i, LString(key))\n\t\tdelete(tb.strdict, key)"))
m("C09", "C09-setfield-raw-direct", "R09-rawkey:(*LState).setField", ("state.go", "\t\t\tif !istable {\n\t\t\t\tls.RaiseError(\"attempt to index a non-table object(%v) with key '%s'\", curobj.Type().String(), key.String())\n\t\t\t}\n\t\t\tls.RawSet(tb, key, value)\n\t\t\treturn", "\t\t\tif !istable {\n\t\t\t\tls.RaiseError(\"attempt to index a non-table object(%v) with key '%s'\", curobj.Type().String(), key.String())\n\t\t\t}\n\t\t\ttb.RawSet(key, value)\n\t\t\treturn"))
m("C09", "C09-rawset-nan-accepted", "R09-rawkey:LState.RawSet:NaN", ("state.go", "\tif n, ok := key.(LNumber); ok && math.IsNaN(float64(n)) {\n\t\tls.RaiseError(\"table index is NaN\")\n\t} else if key == LNil {", "\tif n, ok := key.(LNumber); ok && math.IsInf(float64(n), 0) {\n\t\tls.RaiseError(\"table index is NaN\")\n\t} else if key == LNil {"))
# ---- C10
m("C10", "C10-rawequal-passes-false", "R10-share:forward:(*LState).RawEqual", ("state.go", "\treturn equals(ls, lhs, rhs, true)", "\treturn equals(ls, lhs, rhs, false)"))
m("C10", "C10-get-negative-unguarded", "R10-bounds:(*LState).Get:access", ("state.go", "\t\ttidx := ls.reg.Top() + idx\n\t\tif tidx < base {\n\t\t\treturn LNil\n\t\t}\n\t\treturn ls.reg.Get(tidx)", "\t\ttidx := ls.reg.Top() + idx\n\t\treturn ls.reg.Get(tidx)"))
m("C10", "C10-pop-no-underflow-test", "R10-bounds:Pop:underflow", ("state.go", "\t\tif ls.GetTop() == 0 {\n\t\t\tls.RaiseError(\"register underflow\")\n\t\t}\n", ""))
m("C10", "C10-lessthan-swapped", "R10-share:forward:(*LState).LessThan", ("state.go", "\treturn lessThan(ls, lhs, rhs)", "\treturn lessThan(ls, rhs, lhs)"))
# ---- C11
m("C11", "C11-dispatch-before-poll", "R11-poll", ("vm.go", "\t\tselect {\n\t\tcase <-L.ctx.Done():\n\t\t\tL.RaiseError(L.ctx.Err().Error())\n\t\t\treturn\n\t\tdefault:\n\t\t\tif jumpTable[int(inst>>26)](L, inst, baseframe) == 1 {\n\t\t\t\treturn\n\t\t\t}\n\t\t}", "\t\tif jumpTable[int(inst>>26)](L, inst, baseframe) == 1 {\n\t\t\treturn\n\t\t}\n\t\tselect {\n\t\tcase <-L.ctx.Done():\n\t\t\tL.RaiseError(L.ctx.Err().Error())\n\t\t\treturn\n\t\tdefault:\n\t\t}"))
m("C11", "C11-newthread-keeps-plain-loop", "R11-loopsel:(*LState).NewThread:ctx-store", ("state.go", "\t\tthread.mainLoop = mainLoopWithContext\n\t\tthread.ctx, f = context.WithCancel(ls.ctx)", "\t\tthread.ctx, f = context.WithCancel(ls.ctx)"))
m("C11", "C11-receive-always-blocking", "R11-block:channelReceive", ("channellib.go", "\tif L.ctx != nil {\n\t\tcases := []reflect.SelectCase{{\n\t\t\tDir:  reflect.SelectRecv,\n\t\t\tChan: reflect.ValueOf(L.ctx.Done()),\n\t\t\tSend: reflect.ValueOf(nil),\n\t\t}, {\n\t\t\tDir:  reflect.SelectRecv,\n\t\t\tChan: rch,\n\t\t\tSend: reflect.ValueOf(nil),\n\t\t}}\n\t\t_, v, ok = reflect.Select(cases)\n\t} else {\n\t\tv, ok = rch.Recv()\n\t}", "\tv, ok = rch.Recv()"))
m("C11", "C11-send-ignores-ctx", "R11-block:channelSend", ("channellib.go", "\tif L.ctx != nil {\n\t\tcases := []reflect.SelectCase{{\n\t\t\tDir:  reflect.SelectRecv,\n\t\t\tChan: reflect.ValueOf(L.ctx.Done()),\n\t\t\tSend: reflect.ValueOf(nil),\n\t\t}, {\n\t\t\tDir:  reflect.SelectSend,\n\t\t\tChan: rch,\n\t\t\tSend: reflect.ValueOf(v),\n\t\t}}\n\t\treflect.Select(cases)\n\t} else {\n\t\trch.Send(reflect.ValueOf(v))\n\t}", "\trch.Send(reflect.ValueOf(v))"))
m("C11", "C11-done-arm-does-not-raise", "R11-poll:mainLoopWithContext:done-arm", ("vm.go", "\t\tcase <-L.ctx.Done():\n\t\t\tL.RaiseError(L.ctx.Err().Error())\n\t\t\treturn\n\t\tdefault:", "\t\tcase <-L.ctx.Done():\n\t\t\tL.Push(LString(L.ctx.Err().Error()))\n\t\tdefault:"))
# ---- C12
m("C12", "C12-isfull-off-by-one", "R12-isfull:autoGrowingCallFrameStack", ("state.go", "return int(cs.segIdx) == len(cs.segments)-1 && cs.segSp >= FramesPerSegment", "return int(cs.segIdx) == len(cs.segments) && cs.segSp >= FramesPerSegment"))
m("C12", "C12-pushcallframe-no-isfull", "R12-full:(*LState).pushCallFrame", ("state.go", "\tif ls.stack.IsFull() {\n\t\tls.RaiseError(\"stack overflow\")\n\t}\n\tls.stack.Push(cf)\n\tnewcf := ls.stack.Last()\n\t// this section is inlined by go-inline\n\t// source function is 'func (ls *LState) initCallFrame(cf *callFrame) ' in '_state.go'\n\t{\n\t\tcf := newcf", "\tls.stack.Push(cf)\n\tnewcf := ls.stack.Last()\n\t// this section is inlined by go-inline\n\t// source function is 'func (ls *LState) initCallFrame(cf *callFrame) ' in '_state.go'\n\t{\n\t\tcf := newcf"))
m("C12", "C12-setnumber-no-grow-check", "R12-grow:(*registry).SetNumber", ("state.go", "func (rg *registry) SetNumber(regi int, vali LNumber) { // +inline-start\n\tnewSize := regi + 1\n\t// this section is inlined by go-inline\n\t// source function is 'func (rg *registry) checkSize(requiredSize int) ' in '_state.go'\n\t{\n\t\trequiredSize := newSize\n\t\tif requiredSize > cap(rg.array) {\n\t\t\trg.resize(requiredSize)\n\t\t}\n\t}\n", "func (rg *registry) SetNumber(regi int, vali LNumber) { // +inline-start\n"))
m("C12", "C12-raiseerror-no-forced-slot", "R12-grow:raiseError:forced-slot", ("state.go", "\tif ls.reg.IsFull() {\n\t\t// if the registry is full then it won't be possible to push a value, in this case, force a larger size\n\t\tls.reg.forceResize(ls.reg.Top() + 1)\n\t}\n", ""))
m("C12", "C12-ctx-loop-no-pc-increment", "R12-loops", ("vm.go", "\t\tcf = L.currentFrame\n\t\tinst = cf.Fn.Proto.Code[cf.Pc]\n\t\tcf.Pc++\n\t\tselect {", "\t\tcf = L.currentFrame\n\t\tinst = cf.Fn.Proto.Code[cf.Pc]\n\t\tselect {"))
m("C12", "C12-auto-push-idx-wrong", "R12-isfull:autoGrowingCallFrameStack:Push.Idx", ("state.go", "curSeg.array[cs.segSp].Idx = int(cs.segSp) + FramesPerSegment*int(cs.segIdx)", "curSeg.array[cs.segSp].Idx = int(cs.segSp) + FramesPerSegment*int(cs.segIdx+1)"))
# ---- C13
m("C13", "C13-pm-last-pattern-cache", "R13-globals:pm.", ("pm/pm.go", "func Find(p string, src []byte, offset, limit int) (matches []*MatchData, err error) {", "var lastPattern string\n\nfunc Find(p string, src []byte, offset, limit int) (matches []*MatchData, err error) {\n\tlastPattern = p"))
m("C13", "C13-loadk-memoises-into-proto", "R13-proto:writer:handler[OP_LOADK]", ("vm.go", "\t\t\tv := cf.Fn.Proto.Constants[Bx]\n", "\t\t\tv := cf.Fn.Proto.Constants[Bx]\n\t\t\tif n, ok := v.(LNumber); ok {\n\t\t\t\tcf.Fn.Proto.Constants[Bx] = L.alloc.LNumber2I(n)\n\t\t\t}\n"))
m("C13", "C13-select-send-no-guard", "R13-sendguard:channelSelect", ("channellib.go", "\t\t\tv := tbl.RawGetInt(3)\n\t\t\tif !isGoroutineSafe(v) {\n\t\t\t\tL.ArgError(i+1, \"can not send a function, userdata, thread or table that has a metatable\")\n\t\t\t}\n", "\t\t\tv := tbl.RawGetInt(3)\n"))
m("C13", "C13-goroutinesafe-accepts-threads", "R13-sendguard:isGoroutineSafe:rejects", ("utils.go", "\tcase *LFunction, *LUserData, *LState:\n\t\treturn false", "\tcase *LFunction, *LUserData:\n\t\treturn false"))
# ---- C14
m("C14", "C14-parseclass-raw-panic", "R14-panics:parseClass", ("pm/pm.go", "\tcase EOS:\n\t\tpanic(newError(sc.CurrentPos(), \"unexpected EOS\"))\n\tdefault:\n\t\treturn &charClass{ch}", "\tcase EOS:\n\t\tpanic(\"unexpected EOS\")\n\tdefault:\n\t\treturn &charClass{ch}"))
m("C14", "C14-split-arm-passes-old-level", "R14-depth:recursive-call", ("pm/pm.go", "\t\tif ok, nsp, _ := recursiveVM(src, insts, inst.Operand1, sp, recLevel, m); ok {", "\t\tif ok, nsp, _ := recursiveVM(src, insts, inst.Operand1, sp, recLevel-1, m); ok {"))
m("C14", "C14-vm-writes-subject", "R14-readonly:recursiveVM:src", ("pm/pm.go", "\tcase opBrace:\n\t\tif sp >= len(src) || int(src[sp]) != inst.Operand1 {\n\t\t\treturn false, sp, m\n\t\t}", "\tcase opBrace:\n\t\tif sp >= len(src) || int(src[sp]) != inst.Operand1 {\n\t\t\treturn false, sp, m\n\t\t}\n\t\tsrc[sp] = byte(inst.Operand1)"))
m("C14", "C14-find-no-advance-on-match", "R14-progress:Find:scan-advances", ("pm/pm.go", "\t\tok, nsp, ms := recursiveVM(src, insts, 0, sp, 0)\n\t\tsp++\n\t\tif ok {\n\t\t\tif sp < nsp {\n\t\t\t\tsp = nsp\n\t\t\t}", "\t\tok, nsp, ms := recursiveVM(src, insts, 0, sp, 0)\n\t\tif !ok {\n\t\t\tsp++\n\t\t}\n\t\tif ok {\n\t\t\tsp = nsp"))
m("C14", "C14-gsub-error-not-raised", "R14-panics:Find-error-raised:strGsub", ("stringlib.go", "\tmds, err := pm.Find(pat, unsafeFastStringToReadOnlyBytes(str), 0, limit)\n\tif err != nil {\n\t\tL.RaiseError(err.Error())\n\t}", "\tmds, _ := pm.Find(pat, unsafeFastStringToReadOnlyBytes(str), 0, limit)"))
# ---- C15
m("C15", "C15-upper-via-strings", "R15-bytes:strUpper", ("stringlib.go", "\tbts := []byte(L.CheckString(1))\n\tfor i, c := range bts {\n\t\tif 'a' <= c && c <= 'z' {\n\t\t\tbts[i] = c - ('a' - 'A')\n\t\t}\n\t}\n\tL.Push(LString(string(bts)))", "\tL.Push(LString(strings.ToUpper(L.CheckString(1))))"))
m("C15", "C15-sinh-is-cosh", "R15-mathmap:entry:sinh", ("mathlib.go", "L.Push(LNumber(math.Sinh(float64(L.CheckNumber(1)))))", "L.Push(LNumber(math.Cosh(float64(L.CheckNumber(1)))))"))
m("C15", "C15-atan2-args-swapped", "R15-mathmap:entry:atan2", ("mathlib.go", "math.Atan2(float64(L.CheckNumber(1)), float64(L.CheckNumber(2)))", "math.Atan2(float64(L.CheckNumber(2)), float64(L.CheckNumber(1)))"))
m("C15", "C15-modf-results-swapped", "R15-mathmap:entry:modf", ("mathlib.go", "\t\tv2 = math.Copysign(0, x)\n\t}\n\tL.Push(LNumber(v1))\n\tL.Push(LNumber(v2))\n\treturn 2", "\t\tv2 = math.Copysign(0, x)\n\t}\n\tL.Push(LNumber(v2))\n\tL.Push(LNumber(v1))\n\treturn 2"))
m("C15", "C15-format-c-via-fmt", "R15-bytes:(LNumber).Format:c-not-via-fmt", ("value.go", "\tcase 'c':\n\t\t// C's %c writes one byte (Go's writes the UTF-8 encoding of the code point) and ignores a precision\n\t\twritePadded(f, string([]byte{byte(int64(nm))}))\n", ""), ("value.go", "\tcase 'b', 'd', 'U':", "\tcase 'b', 'c', 'd', 'U':"))
# ---- C16
m("C16", "C16-lvasnumber-own-reader", "R16-onereader:LVAsNumber", ("value.go", "\tcase LString:\n\t\tif num, err := parseNumber(string(lv)); err == nil {\n\t\t\treturn num\n\t\t}\n\t}\n\treturn LNumber(0)", "\tcase LString:\n\t\tif num, err := strconv.ParseFloat(string(lv), 64); err == nil {\n\t\t\treturn LNumber(num)\n\t\t}\n\t}\n\treturn LNumber(0)"), ("value.go", "\t\"os\"\n)", "\t\"os\"\n\t\"strconv\"\n)"))
m("C16", "C16-q-falls-through", "R16-q:LString.Format", ("value.go", "\tcase 'q':\n\t\tf.Write(quoteLuaString(string(st)))\n\tdefault:", "\tdefault:"))
m("C16", "C16-strftime-minute-is-month", "R16-strftime:%M:meaning", ("utils.go", "'M': \"04\"", "'M': \"01\""))
m("C16", "C16-ostime-utc", "R16-time:osTime:local-zone", ("oslib.go", "t := time.Date(year, time.Month(month), day, hour, min, sec, 0, time.Local)", "t := time.Date(year, time.Month(month), day, hour, min, sec, 0, time.UTC)"))
m("C16", "C16-malformed-number-nan", "R16-onereader:compiler-error-raises:compileExpr", ("compile.go", "\t\tif err != nil {\n\t\t\traiseCompileError(context, sline(ex), \"malformed number near '%s'\", ex.Value)\n\t\t}", "\t\tif err != nil {\n\t\t\tnum = LNumber(math.NaN())\n\t\t}"))
# ---- C17
m("C17", "C17-repeat-no-setline", "R17-setline:grammar:RepeatStmt", ("parse/parser.go", "\t\t\tyyVAL.stmt = &ast.RepeatStmt{Condition: yyDollar[4].expr, Stmts: yyDollar[2].stmts}\n\t\t\tyyVAL.stmt.SetLine(yyDollar[1].token.Pos.Line)", "\t\t\tyyVAL.stmt = &ast.RepeatStmt{Condition: yyDollar[4].expr, Stmts: yyDollar[2].stmts}"))
m("C17", "C17-multiline-raw-readbyte", "R17-rawread:reader-user", ("parse/lexer.go", "\tch := sc.Next()\n\tif ch == '\\n' || ch == '\\r' {\n\t\tch = sc.Next()\n\t}\n\tfor {", "\tch := sc.Next()\n\tif ch == '\\n' || ch == '\\r' {\n\t\tb, _ := sc.reader.ReadByte()\n\t\tch = int(b)\n\t}\n\tfor {"))
m("C17", "C17-numberfor-early-return", "R17-blocks:paired:compileNumberForStmt", ("compile.go", "\tbodypc := code.LastPC()\n\tcompileChunk(context, stmt.Stmts, false)\n\n\tcontext.LeaveBlock()\n\n\tflpc := code.LastPC()", "\tbodypc := code.LastPC()\n\tcompileChunk(context, stmt.Stmts, false)\n\tif len(stmt.Stmts) == 0 && false {\n\t\treturn\n\t}\n\tif len(stmt.Stmts) > 0 {\n\t\tcontext.LeaveBlock()\n\t}\n\n\tflpc := code.LastPC()"))
m("C17", "C17-where-reads-pc", "R17-where:(*LState).where", ("state.go", "line = fmt.Sprintf(\"%v:\", proto.DbgSourcePositions[cf.Pc-1])", "line = fmt.Sprintf(\"%v:\", proto.DbgSourcePositions[cf.Pc])"))
# ---- C18
m("C18", "C18-swap-copies", "R18-swap:Swap", ("table.go", "lv.Values[i], lv.Values[j] = lv.Values[j], lv.Values[i]", "lv.Values[i] = lv.Values[j]"))
m("C18", "C18-less-args-swapped", "R18-swap:Less:comparator", ("table.go", "\t\tlv.L.Push(lv.Values[i])\n\t\tlv.L.Push(lv.Values[j])", "\t\tlv.L.Push(lv.Values[j])\n\t\tlv.L.Push(lv.Values[i])"))
m("C18", "C18-remove-default-first", "R18-delegate:tableRemove:default-last", ("tablelib.go", "\tpos := L.OptInt(2, n)\n", "\tpos := L.OptInt(2, 1)\n"))
# ---- C19
m("C19", "C19-read-no-closed-guard", "R19-closed:fileRead", ("iolib.go", "\terrorIfFileIsClosed(L, file)\n\tif n := fileIsReadable(L, file); n != 0 {\n\t\treturn n\n\t}\n\tif L.GetTop() == idx-1 {", "\tif n := fileIsReadable(L, file); n != 0 {\n\t\treturn n\n\t}\n\tif L.GetTop() == idx-1 {"))
m("C19", "C19-write-error-exit-keeps-buffer", "R19-reconcile:fileWriteAux", ("iolib.go", "errreturn:\n\n\tfile.AbandonReadBuffer()\n\tL.Push(LNil)", "errreturn:\n\n\tL.Push(LNil)"))
m("C19", "C19-w-without-trunc", "R19-modes:mode:w", ("iolib.go", "\tcase \"w\", \"wb\":\n\t\tmode = os.O_WRONLY | os.O_TRUNC | os.O_CREATE", "\tcase \"w\", \"wb\":\n\t\tmode = os.O_WRONLY | os.O_CREATE"))
m("C19", "C19-seek-keeps-buffer", "R19-reconcile:fileSeek", ("iolib.go", "\terr = file.AbandonReadBuffer()\n\tif err != nil {\n\t\tgoto errreturn\n\t}\n\n\tpos, err = file.fp.Seek", "\tpos, err = file.fp.Seek"))
# ---- C20
m("C20", "C20-sentinel-after-loader", "R20-sentinel:sentinel-before-module-call", ("baselib.go", "\tL.SetField(loaded, name, loopdetection)\n\tL.Push(modasfunc)\n\tL.Push(LString(name))\n\tL.Call(1, 1)", "\tL.Push(modasfunc)\n\tL.Push(LString(name))\n\tL.Call(1, 1)\n\tL.SetField(loaded, name, loopdetection)"))
m("C20", "C20-loaders-swapped", "R20-order:loLoaders", ("loadlib.go", "var loLoaders = []LGFunction{loLoaderPreload, loLoaderLua}", "var loLoaders = []LGFunction{loLoaderLua, loLoaderPreload}"))
m("C20", "C20-loop-returns-sentinel", "R20-sentinel:loop-detected", ("baselib.go", "\t\tif lv == loopdetection {\n\t\t\tL.RaiseError(\"loop or previous error loading module: %s\", name)\n\t\t}\n", ""))

def main():
    by = collections.defaultdict(list)
    for prop, mid, expect, edits in M:
        by[prop].append(dict(id=mid, source="hand", expect=expect, edits=edits))
    os.makedirs(os.path.join(V, "mutants"), exist_ok=True)
    for prop in sorted(by):
        path = os.path.join(V, "mutants", prop + ".json")
        keep = []
        if os.path.exists(path):
            keep = [x for x in json.load(open(path)) if str(x.get("source", "")).startswith("seeded/")]
        json.dump(by[prop] + keep, open(path, "w"), indent=1)
        print(prop, len(by[prop]), "hand +", len(keep), "seeded")


# ---- rules added from the second round of seeded changes
m("C01", "C01-threading-reads-patched-label", "R01-threading:patchCode:label-lookup#1:only-unpatched", ("compile.go", "\t\t\t\tif at < pc {\n\t\t\t\t\t// instructions before pc are already patched: sBx is a distance, no longer a label\n\t\t\t\t\td = at + opGetArgSbx(jmp) - pc\n\t\t\t\t} else {\n\t\t\t\t\td = context.GetLabelPc(opGetArgSbx(jmp)) - pc\n\t\t\t\t}", "\t\t\t\t_ = at\n\t\t\t\td = context.GetLabelPc(opGetArgSbx(jmp)) - pc"))
m("C08", "C08-threading-no-hop-bound", "R08-terminate:patchCode:loop#", ("compile.go", "opGetOpCode(jmp) == OP_JMP && count < 5;", "opGetOpCode(jmp) == OP_JMP && (count == 0 || distance != 0);"))
m("C08", "C08-concat-pop-loop-no-step", "R08-terminate:compileStringConcatOpExpr:loop#1", ("compile.go", "for pc := code.LastPC(); pc != 0 && opGetOpCode(code.At(pc)) == OP_CONCAT; pc-- {\n\t\tcode.Pop()", "for pc := code.LastPC(); pc != 0 && opGetOpCode(code.At(pc)) == OP_CONCAT; pc = code.LastPC() {\n\t\tcode.Pop()"))
m("C05", "C05-where-no-pc-guard", "R17-where:(*LState).where:pc-guard", ("state.go", "\t\tif cf.Pc > 0 {\n\t\t\tline = fmt.Sprintf(\"%v:\", proto.DbgSourcePositions[cf.Pc-1])\n\t\t} else {", "\t\tif cf.Pc != 0 || true {\n\t\t\tline = fmt.Sprintf(\"%v:\", proto.DbgSourcePositions[cf.Pc-1])\n\t\t} else {"))
m("C04", "C04-objlen-len-only-for-tables", "R04-events:(*LState).ObjLen:__len:any-operand-type", ("state.go", "\top := ls.metaOp1(v1, \"__len\")\n\tif op.Type() == LTFunction {", "\top := LValue(LNil)\n\tif v1.Type() == LTTable {\n\t\top = ls.metaOp1(v1, \"__len\")\n\t}\n\tif op.Type() == LTFunction {"))
m("C09", "C09-rawsetint-nil-truncates", "R09-owner:array-shrinker:(*LTable).RawSetInt", ("table.go", "func (tb *LTable) RawSetInt(key int, value LValue) {\n", "func (tb *LTable) RawSetInt(key int, value LValue) {\n\tif value == LNil && key == len(tb.array) && key > 0 {\n\t\ttb.array = tb.array[:key-1]\n\t\treturn\n\t}\n"))
m("C14", "C14-alpha-class-unicode", "R14-bytes:", ("pm/pm.go", "\tcase 'a', 'A':\n\t\tret = 'A' <= ch && ch <= 'Z' || 'a' <= ch && ch <= 'z'", "\tcase 'a', 'A':\n\t\tret = unicode.IsLetter(rune(ch))"), ("pm/pm.go", "import (\n\t\"fmt\"\n)", "import (\n\t\"fmt\"\n\t\"unicode\"\n)"))
m("C16", "C16-print-int-path-below-2p31", "R16-print:LNumber.String", ("value.go", "func (nm LNumber) String() string {\n\tif isInteger(nm) {", "func (nm LNumber) String() string {\n\tif isInteger(nm) && nm < 2147483648 && nm > -2147483648 {"))
m("C12", "C12-pop-returns-freed-segment", "R13-poolrelease:(*autoGrowingCallFrameStack).Pop", ("state.go", "\t\tcs.segSp = FramesPerSegment\n\t\tcurSeg = cs.segments[cs.segIdx]\n", "\t\tcs.segSp = FramesPerSegment\n"))


m("C01", "C01-call-in-place-in-last-param", "R01-callregs:compileFuncCallExpr:frame-starts-at-given-temporary", ("compile.go", "\tfuncreg := reg\n\targc := len(expr.Args)", "\tfuncreg := reg\n\tif ec.ctype == ecLocal && ec.reg == (int(context.Proto.NumParameters)-1) {\n\t\tfuncreg = ec.reg\n\t\treg = ec.reg\n\t}\n\targc := len(expr.Args)"))
m("C01", "C01-genericfor-explist-to-loop-names", "R01-callregs:compileGenericForStmt:explist-initialises-three-hidden-variables", ("compile.go", "compileRegAssignment(context, hidden, stmt.Exprs, context.RegTop()-3, 3, sline(stmt))", "compileRegAssignment(context, stmt.Names, stmt.Exprs, context.RegTop()-3, 3, sline(stmt))\n\t_ = hidden"))
m("C01", "C01-peephole-kmv-no-dest-test", "R01-peephole:(*codeStore).PropagateMV", ("compile.go", "func (cd *codeStore) PropagateMV(top int, save *int, reg *int, inc int) {\n\tlastinst := cd.Last()\n\tif opGetArgA(lastinst) >= top {", "func (cd *codeStore) PropagateMV(top int, save *int, reg *int, inc int) {\n\tlastinst := cd.Last()\n\tif top >= 0 {"))
m("C17", "C17-error-level-minus-one-always", "R17-where:raiseError:level-counts-from-host-function", ("state.go", "\t\t\t// raised from a host function: that function is level 0 and level 1 is its caller\n\t\t\tat = level\n", "\t\t\t// raised from a host function: that function is level 0 and level 1 is its caller\n\t\t\tat = level - 1\n"))

m("C17", "C17-endpc-inclusive-writer", "R17-scope:(*funcContext).EndScope:EndPc-convention", ("compile.go", "\t\tinfo.EndPc = fc.Code.LastPC() + 1\n", "\t\tinfo.EndPc = fc.Code.LastPC()\n"))
m("C17", "C17-endscope-by-register", "R17-scope:(*funcContext).EndScope:EndPc-record", ("compile.go", "\tfor _, info := range fc.Block.dbgLocals {\n\t\tinfo.EndPc = fc.Code.LastPC() + 1\n\t}", "\tfor _, vr := range fc.Block.LocalVars.List() {\n\t\tfc.Proto.DbgLocals[vr.Index].EndPc = fc.Code.LastPC() + 1\n\t}"))

m("C01", "C01-local-declared-before-function-value", "R01-callregs:compileLocalAssignStmt:declare-before-value", ("compile.go", "\tif stmt.LocalFunction && len(stmt.Names) == 1 && len(stmt.Exprs) == 1 {", "\tif len(stmt.Names) == 1 && len(stmt.Exprs) == 1 {"))

m("C05", "C05-handler-pushed-before-inner-recover", "R05-handlerarm:PCall$1:(*LState).Push", ("state.go", "\t\t\tif errfunc != nil {\n\t\t\t\tls.Panic = panicWithoutTraceback\n\t\t\t\tdefer func() {", "\t\t\tif errfunc != nil {\n\t\t\t\tls.Push(errfunc)\n\t\t\t\tls.Push(err.(*ApiError).Object)\n\t\t\t\tls.Panic = panicWithoutTraceback\n\t\t\t\tdefer func() {"), ("state.go", "\t\t\t\t// pushing can itself fail (registry overflow), so it is done under the recover above\n\t\t\t\tls.Push(errfunc)\n\t\t\t\tls.Push(err.(*ApiError).Object)\n", ""))
m("C06", "C06-yield-from-nested-loop", "R06-killarg:callGFunction:switch#1:yield-only-from-base-loop", ("vm.go", "\t\tif baseframe != nil {\n\t\t\t// this loop was entered from a host function or a metamethod call;\n\t\t\t// the Go frames in between cannot be suspended\n\t\t\tL.RaiseError(\"attempt to yield across metamethod/C-call boundary\")\n\t\t}\n", ""))

m("C07", "C07-regcount-closure-dest-ignored", "R07-regcount:OP_CLOSURE", ("compile.go", "\t\tcase OP_CLOSURE:\n\t\t\tif reg := opGetArgA(inst); reg > maxreg {\n\t\t\t\tmaxreg = reg\n\t\t\t}\n", "\t\tcase OP_CLOSURE:\n"))
m("C07", "C07-regcount-forloop-var-ignored", "R07-regcount:OP_FORLOOP", ("compile.go", "\t\t\tOP_TAILCALL, OP_RETURN, OP_CLOSE:\n\t\t\t/* nothing to do */\n\t\tcase OP_FORPREP, OP_FORLOOP:", "\t\t\tOP_TAILCALL, OP_RETURN, OP_CLOSE, OP_FORLOOP:\n\t\t\t/* nothing to do */\n\t\tcase OP_FORPREP:"))
m("C07", "C07-regcount-tforloop-ignored", "R07-regcount:OP_TFORLOOP", ("compile.go", "\t\t\tOP_TAILCALL, OP_RETURN, OP_CLOSE:\n\t\t\t/* nothing to do */", "\t\t\tOP_TAILCALL, OP_RETURN, OP_CLOSE, OP_TFORLOOP:\n\t\t\t/* nothing to do */"), ("compile.go", "\t\tcase OP_TFORLOOP:\n\t\t\t// the iterator call is laid out in R(A+3)..R(A+5), its results are R(A+3)..R(A+2+C)\n\t\t\tif reg := opGetArgA(inst) + 2 + intMax(opGetArgC(inst), 3); reg > maxreg {\n\t\t\t\tmaxreg = reg\n\t\t\t}\n", ""))
m("C07", "C07-regcount-self-only-a", "R07-regcount:OP_SELF", ("compile.go", "\t\t\tif reg := opGetArgA(inst) + 1; reg > maxreg {", "\t\t\tif reg := opGetArgA(inst); reg > maxreg {"))

m("C20", "C20-openpackage-fresh-loaded", "R20-order:OpenPackage:keeps-existing-_LOADED", ("loadlib.go", "\tloaded := L.FindTable(L.Get(RegistryIndex).(*LTable), \"_LOADED\", 1)\n\tL.SetField(packagemod, \"loaded\", loaded)\n", "\tloaded := L.NewTable()\n\tL.SetField(packagemod, \"loaded\", loaded)\n\tL.SetField(L.Get(RegistryIndex), \"_LOADED\", loaded)\n"))
m("C15", "C15-format-flags-subset", "R15-flags:defaultFormat:probes-all-printf-flags", ("utils.go", "\tfor i := 0; i < 128; i++ {\n\t\tif f.Flag(i) {", "\tfor i := 33; i < 128; i++ {\n\t\tif f.Flag(i) {"))
m("C16", "C16-parsenumber-trimspace", "R16-onereader:parseNumber:c-locale-blanks-only", ("utils.go", "number = strings.Trim(number, \" \\t\\n\\r\\f\\v\")", "number = strings.TrimSpace(number)"))

m("C18", "C18-sort-whole-array-part", "R18-arrayowner:reader:tableSort", ("tablelib.go", "tbl.array[:tbl.Len()]}", "tbl.array}"))
m("C18", "C18-maxn-from-array-size", "R18-arrayowner:reader:tableMaxN", ("tablelib.go", "\tmax := LNumber(tbl.MaxN())\n", "\tmax := LNumber(tbl.MaxN())\n\tif len(tbl.array) > 0 {\n\t\tmax = LNumber(len(tbl.array))\n\t}\n"))
m("C04", "C04-callr-passes-handler", "R04-callself:(*LState).callR:passes-called-object", ("state.go", "\t\tTailCall:   0,\n\t}, lv, meta)\n\tif ls.G.MainThread == nil {", "\t\tTailCall:   0,\n\t}, fn, meta)\n\tif ls.G.MainThread == nil {"))
m("C14", "C14-repl-lookahead-too-strict", "R14-repl:flagScanner.Next:lookahead+1", ("utils.go", "if fs.Pos < (fs.Length-1) && fs.str[fs.Pos+1] == fs.flag {", "if fs.Pos < (fs.Length-2) && fs.str[fs.Pos+1] == fs.flag {"))
m("C14", "C14-repl-lookahead-unguarded", "R14-repl:flagScanner.Next:lookahead+1", ("utils.go", "if fs.Pos < (fs.Length-1) && fs.str[fs.Pos+1] == fs.flag {", "if fs.Pos < fs.Length && fs.str[fs.Pos+1] == fs.flag {"))

m("C06", "C06-resume-error-skips-settop", "R06-resumeapi:Resume:restores-resumer-stack", ("state.go", "\thaserror := LVIsFalse(ls.Get(top + 1))\n", "\tif LVIsFalse(ls.Get(top+1)) && ls.GetTop() == top+2 {\n\t\treturn ResumeError, newApiError(ApiErrorRun, ls.Get(top+2)), nil\n\t}\n\thaserror := LVIsFalse(ls.Get(top + 1))\n"))

m("C12", "C12-wrapped-dead-thread-push-on-full-registry", "R12-deadpush:threadRun$1:push", ("vm.go", "\t\t\t\t\t// the dead thread's registers are of no use any more and may be full\n\t\t\t\t\tL.SetTop(0)\n", ""))

m("C05", "C05-traceback-name-index-unguarded", "R05-tracesafe:(*LState).formattedFrameFuncName:index", ("state.go", "\tif name == \"\" || (name[0] != '(' && name[0] != '<') { // t[\"\"]() records an empty call-site name", "\tif name[0] != '(' && name[0] != '<' {"))

m("C01", "C01-kmv-into-settable-object", "R01-kmv:compileAssignStmtLeft:kmv", ("compile.go", "\t\t\t\tcompileExprWithMVPropagation(context, st.Object, &reg, &ac.ec.reg)", "\t\t\t\tcompileExprWithKMVPropagation(context, st.Object, &reg, &ac.ec.reg)"))
m("C01", "C01-kmv-into-test-register", "R01-kmv:compileBranchCondition:kmv", ("compile.go", "\tcompileExprWithMVPropagation(context, expr, &reg, &a)\n\tcode.AddABC(OP_TEST, a, 0, 0^flip, sline(expr))", "\tcompileExprWithKMVPropagation(context, expr, &reg, &a)\n\tcode.AddABC(OP_TEST, a, 0, 0^flip, sline(expr))"))

m("C08", "C08-long-comment-falls-into-line-skip", "R08-comment:skipComments:long-comment-ends-at-bracket", ("parse/lexer.go", "\t\t\t\t\treturn sc.Error(buf.String(), \"invalid multiline comment\")\n\t\t\t\t}\n\t\t\t\treturn nil\n", "\t\t\t\t\treturn sc.Error(buf.String(), \"invalid multiline comment\")\n\t\t\t\t}\n"))
m("C02", "C02-initcallframe-copy-keeps-top", "R02-copies:LState.initCallFrame", ("state.go", "func (ls *LState) initCallFrame(cf *callFrame) { // +inline-start\n\tif cf.Fn.IsG {\n\t\tls.reg.SetTop(cf.LocalBase + cf.NArgs)", "func (ls *LState) initCallFrame(cf *callFrame) { // +inline-start\n\tif cf.Fn.IsG {\n\t\tif top := cf.LocalBase + cf.NArgs; top > ls.reg.top {\n\t\t\tls.reg.SetTop(top)\n\t\t}"))

m("C17", "C17-findlocal-queries-next-pc", "R17-scope:findLocal:queries-at-Pc-1", ("state.go", "fn.LocalName(no, frame.Pc-1)", "fn.LocalName(no, frame.Pc)"))

# ---- string library (F36-F43)
m("C14", "C14-match-nil-dropped", "R10-retcount:strMatch:return", ("stringlib.go", "\tif len(mds) == 0 {\n\t\tL.Push(LNil)\n\t\treturn 1\n\t}\n\tmd := mds[0]\n\tnsubs", "\tif len(mds) == 0 {\n\t\tL.Push(LNil)\n\t\treturn 0\n\t}\n\tmd := mds[0]\n\tnsubs"))
m("C14", "C14-backref-slice-unguarded", "R14-index:recursiveVM:src-slice", ("pm/pm.go", "\t\tif cend < cstart || cend > len(src) {\n\t\t\t// the capture is still open: its end has not been recorded\n\t\t\tpanic(newError(_UNKNOWN, \"invalid capture index\"))\n\t\t}\n", ""))
m("C14", "C14-gmatch-iter-eq-test", "R14-index:strGmatchIter:index", ("stringlib.go", "\tidx := md.pos\n\tif idx >= len(matches) {\n\t\treturn 0\n\t}\n\tmd.pos += 1\n", "\tidx := md.pos\n\tmd.pos += 1\n\tif idx == len(matches) {\n\t\treturn 0\n\t}\n"))
m("C15", "C15-byte-end-defaults-to-minus-one", "R15-positions:strByte:end-defaults-to-start", ("stringlib.go", "pose := luaRelativePos(L.OptInt(3, posi), l)", "pose := luaRelativePos(L.OptInt(3, -1), l)"))
m("C15", "C15-start-position-not-clamped", "R15-positions:luaIndex2StringIndex:upper-clamp-unconditional", ("stringlib.go", "\ti = intMax(0, i)\n\tif i > l {", "\ti = intMax(0, i)\n\tif !start && i > l {"))
m("C15", "C15-format-string-number-inverted", "R16-errsense:(LString).Format", ("value.go", "if nm, err := parseNumber(string(st)); err == nil {\n\t\t\t// a numeric string is converted", "if nm, err := parseNumber(string(st)); err != nil {\n\t\t\t// a numeric string is converted"))
m("C16", "C16-tonumber-ignores-error", "R16-errsense:LVAsNumber", ("value.go", "\t\tif num, err := parseNumber(string(lv)); err == nil {\n\t\t\treturn num\n\t\t}", "\t\tnum, _ := parseNumber(string(lv))\n\t\treturn num"))

m("C02", "C02-yield-in-tail-position-removes-caller", "R02-tailframe:callGFunction:yield-in-tail-position-keeps-caller", ("vm.go", "\tif tailcall && gfnret < 0 {\n\t\t// a host function that yields is not tail called after all: the caller's frame stays, the values of\n\t\t// the next resume land where the call was made and the RETURN that follows the TAILCALL hands them on\n\t\tframe.ReturnBase = frame.Base\n\t\tframe.NRet = MultRet\n\t\ttailcall = false\n\t}\n", ""))
m("C06", "C06-coresume-no-padding", "R06-resumeapi:resumeThread:pads-resume-values", ("coroutinelib.go", "\t\tth.padResumeValues(nargs)\n", ""))
m("C06", "C06-resume-api-no-padding", "R06-resumeapi:(*LState).Resume:pads-resume-values", ("state.go", "\t\tth.padResumeValues(len(args))\n", ""))

m("C06", "C06-coresume-normal-not-refused", "R06-guard:resumeThread:not-normal", ("coroutinelib.go", "\tif L.Status(th) == \"normal\" {\n\t\t// it is waiting for the thread it resumed (an ancestor of the running one)\n", "\tif L.Status(th) == \"normal\" && th.wrapped {\n\t\t// it is waiting for the thread it resumed (an ancestor of the running one)\n"))
m("C06", "C06-status-direct-parent-only", "R06-guard:Status:normal-walks-resumer-chain", ("state.go", "\t\tfor p := ls.G.CurrentThread; p != nil; p = p.Parent {\n\t\t\tif p.Parent == th {\n\t\t\t\tstatus = \"normal\"\n\t\t\t\tbreak\n\t\t\t}\n\t\t}", "\t\tif ls.Parent == th {\n\t\t\tstatus = \"normal\"\n\t\t}"))

m("C06", "C06-resume-nesting-unbounded", "R06-guard:resumeThread:nesting-bounded", ("coroutinelib.go", "\tif depth >= maxResumeDepth {\n\t\t// every nested resume runs on the Go stack of its resumer\n\t\tL.RaiseError(\"C stack overflow\")\n\t}\n", "\t_ = depth\n"))


m("C01", "C01-constructor-open-ended-for-keyed-call", "R01-constructor:compileTableExpr:open-ended-only-for-positional-last", ("compile.go", "\t\t\tb := pending\n\t\t\tif lastvararg {", "\t\t\tb := pending\n\t\t\tif islast && isVarArgReturnExpr(field.Value) {"))
m("C01", "C01-constructor-flush-by-total-count", "R01-constructor:compileTableExpr:pending-reset-by-flush", ("compile.go", "\t\tif pending == FieldsPerFlush || (islast && pending > 0) || lastvararg {", "\t\tif (arraycount != 0 && arraycount%FieldsPerFlush == 0) || (islast && pending > 0) || lastvararg {"), ("compile.go", "\t\t\tpending = 0\n", "\t\t\tif islast {\n\t\t\t\tpending = 0\n\t\t\t}\n"))
m("C01", "C01-paren-vararg-straight-into-local", "R01-constructor:compileExpr:single-vararg-into-local-via-temporary", ("compile.go", "\t\tif ec.ctype == ecLocal && ec.varargopt == 0 && context.RegTop() > sreg+1 {\n\t\t\t// VARARG leaves the stack top just above its last result: with other locals living above\n\t\t\t// the target the value is fetched into a temporary first\n\t\t\tcode.AddABC(OP_VARARG, reg, 2, 0, sline(ex))\n\t\t\tcode.AddABC(OP_MOVE, sreg, reg, 0, sline(ex))\n\t\t\treturn 0\n\t\t}\n", ""))

m("C08", "C08-formfeed-not-blank", "R08-comment:blanks:whitespace1", ("parse/lexer.go", "const whitespace1 = 1<<'\\t' | 1<<' ' | 1<<'\\f' | 1<<'\\v'", "const whitespace1 = 1<<'\\t' | 1<<' ' | 1<<'\\v'"))
m("C08", "C08-decimal-escape-wraps", "R08-comment:scanEscape:decimal-escape-is-a-byte", ("parse/lexer.go", "\t\t\tif val > 255 {\n\t\t\t\treturn sc.Error(string(bytes), \"escape sequence too large\")\n\t\t\t}\n", ""))
m("C08", "C08-short-comment-with-bracket-prefix-rejected", "R08-comment:skipComments:long-form-needs-second-bracket", ("parse/lexer.go", "\t\t\tvar level int\n\t\t\tlevel, ch = sc.countSep(sc.Next())\n\t\t\tif ch == '[' {\n\t\t\t\tvar buf bytes.Buffer\n\t\t\t\tif err := sc.scanMultilineBody(level, &buf); err != nil {\n\t\t\t\t\treturn sc.Error(buf.String(), \"invalid multiline comment\")\n\t\t\t\t}\n\t\t\t\treturn nil\n\t\t\t}\n", "\t\t\tvar buf bytes.Buffer\n\t\t\tif err := sc.scanMultilineString(sc.Next(), &buf); err != nil {\n\t\t\t\treturn sc.Error(buf.String(), \"invalid multiline comment\")\n\t\t\t}\n\t\t\treturn nil\n"))

m("C07", "C07-call-result-count-unchecked", "R07-width:compileFuncCallExpr:OP_CALL:C", ("compile.go", "\tif ec.varargopt+2 > opMaxArgsC || b > opMaxArgsB {", "\tif b > opMaxArgsB {"))
m("C07", "C07-last-exposes-setlist-data-word", "R07-width:codeStore.Last:hides-setlist-data-word", ("compile.go", "\tif cd.pc > 1 {\n\t\tif prev := cd.codes[cd.pc-2]; opGetOpCode(prev) == OP_SETLIST && opGetArgC(prev) == 0 {\n\t\t\t// the last word is the batch number of an extended SETLIST: data, not an instruction\n\t\t\treturn opInvalidInstruction\n\t\t}\n\t}\n", ""))

m("C01", "C01-negative-zero-preloaded", "R01-alloc:LNumber2I:preload-not-for-negative-zero", ("alloc.go", " && !(v == 0 && math.Signbit(float64(v))) {", " && !math.IsNaN(float64(v)) {"))

m("C18", "C18-concat-clamps-range", "R18-lib:tableConcat:range-as-given", ("tablelib.go", "\tj := L.OptInt(4, tbl.Len())\n\t// the range is taken", "\tj := L.OptInt(4, tbl.Len())\n\ti = intMax(intMin(i, tbl.Len()), 1)\n\t// the range is taken"))
m("C18", "C18-maxn-array-only", "R18-lib:tableMaxN:all-keys", ("tablelib.go", "\ttbl.ForEach(func(k, _ LValue) {\n\t\tif n, ok := k.(LNumber); ok && n > max {\n\t\t\tmax = n\n\t\t}\n\t})\n", ""))
m("C18", "C18-remove-any-position", "R18-delegate:tableRemove:position-in-1..n", ("tablelib.go", "\tif pos < 1 || pos > n {\n\t\t// nothing to remove: no result\n\t\treturn 0\n\t}\n", "\tif n == 0 {\n\t\treturn 0\n\t}\n"))
m("C18", "C18-remove-on-physical-array", "R18-delegate:Remove:shrinks-by-one", ("table.go", "\tlarray := tb.Len()\n\ttb.array = tb.array[:larray]\n", "\tlarray := len(tb.array)\n"), ("table.go", "\t\ttb.array[larray-1] = nil\n\t\ttb.array = tb.array[:larray-1]\n", "\t\ttb.array[larray-1] = LNil\n"))

m("C09", "C09-next-vanished-array-key", "R09-owner:Next:vanished-array-key-starts-hash-part", ("table.go", "\t\t\t_, hashed := tb.k2i[key]\n\t\t\tif tb.array == nil || index == len(tb.array) || (index > len(tb.array) && !hashed) {", "\t\t\tif tb.array == nil || index == len(tb.array) {"))

m("C01", "C01-forprep-no-string-conversion", "R01-forprep:OP_FORPREP:converts-string-control-values", ("vm.go", "\t\t\t// the control values may be strings that convert to numbers\n\t\t\tfor i := 0; i < 3; i++ {\n\t\t\t\tif str, ok := reg.Get(RA + i).(LString); ok {\n\t\t\t\t\tif num, err := parseNumber(string(str)); err == nil {\n\t\t\t\t\t\treg.Set(RA+i, num)\n\t\t\t\t\t}\n\t\t\t\t}\n\t\t\t}\n", ""))

m("C06", "C06-host-body-ends-only-when-tailcalled", "ends-coroutine-for-any-last-host-frame", ("vm.go", "\tif L.Parent != nil && L.stack.Sp() == 1 {\n\t\t// the host function was the last frame", "\tif tailcall && L.Parent != nil && L.stack.Sp() == 1 {\n\t\t// the host function was the last frame"))

# ---- io (F63-F69)
m("C19", "C19-flush-keeps-read-ahead", "R19-buffers:fileFlushAux:gives-read-ahead-back", ("iolib.go", "\tif err := file.AbandonReadBuffer(); err != nil {\n\t\tL.Push(LNil)\n\t\tL.Push(LString(err.Error()))\n\t\treturn 2\n\t}\n\tL.Push(LTrue)\n\treturn 1\n}", "\tL.Push(LTrue)\n\treturn 1\n}"))
m("C19", "C19-seek-without-flush", "R19-buffers:fileSeek:flushes-buffered-output-first", ("iolib.go", "\t// buffered output belongs before the position the file is about to leave\n\tif bwriter, ok := file.writer.(*bufio.Writer); ok {\n\t\tif err = bwriter.Flush(); err != nil {\n\t\t\tgoto errreturn\n\t\t}\n\t}\n", ""))
m("C19", "C19-setvbuf-drops-pending-output", "R19-buffers:fileSetVBuf:flushes-the-buffer-it-replaces", ("iolib.go", "\t// the buffer that is being replaced may hold output\n\tif bwriter, ok := file.writer.(*bufio.Writer); ok {\n\t\tif err = bwriter.Flush(); err != nil {\n\t\t\tgoto errreturn\n\t\t}\n\t}\n", ""))
m("C19", "C19-lines-iter-uses-readline", "R19-buffers:lines:one-reader-ending-at-newline-only", ("iolib.go", "\tbuf, err, iseof := readBufioLine(file.reader)\n\tif iseof {\n\t\tL.Push(LNil)\n\t\treturn 1\n\t}\n\tif err != nil {\n\t\tL.RaiseError(err.Error())\n\t}", "\tbuf, _, err := file.reader.ReadLine()\n\tif err == io.EOF {\n\t\tL.Push(LNil)\n\t\treturn 1\n\t}\n\tif err != nil {\n\t\tL.RaiseError(err.Error())\n\t}"))
m("C19", "C19-output-no-trunc", "R19-buffers:ioOutput:opens-like-fopen-w", ("iolib.go", "os.O_WRONLY|os.O_CREATE|os.O_TRUNC, 0600, true, false)", "os.O_WRONLY|os.O_CREATE, 0600, true, false)"))
m("C19", "C19-negative-read-count", "R19-buffers:fileReadAux:count-not-negative", ("iolib.go", "\t\t\tif size < 0 {\n\t\t\t\tL.ArgError(i, \"invalid count\")\n\t\t\t}\n", ""))
m("C19", "C19-readline-eof-with-data", "R19-eofdata:readBufioLine:eof-only-when-empty", ("utils.go", "\tiseof := len(result) == 0 && err == io.EOF\n", "\tiseof := err == io.EOF\n"))


m("C10", "C10-checkint-strict", "R10-argtypes:CheckInt:accepts", ("auxlib.go", "func (ls *LState) CheckInt(n int) int {\n\tif num, ok := argNumber(ls.Get(n)); ok {\n\t\treturn int(num)\n\t}", "func (ls *LState) CheckInt(n int) int {\n\tif num, ok := ls.Get(n).(LNumber); ok {\n\t\treturn int(num)\n\t}"))
m("C15", "C15-optint-strict", "R10-argtypes:OptInt:accepts", ("auxlib.go", "\tif num, ok := argNumber(v); ok {\n\t\treturn int(num)\n\t}", "\tif num, ok := v.(LNumber); ok {\n\t\treturn int(num)\n\t}"))

m("C13", "C13-random-from-process-wide-generator", "R13-globals:math/rand:process-wide-generator-not-used-at-run-time", ("mathlib.go", "\t\tL.Push(LNumber(rng.Float64()))", "\t\t_ = rng\n\t\tL.Push(LNumber(rand.Float64()))"))

m("C12", "C12-segment-index-16-bits", "R12-full:segIdx:wide-enough-for-any-CallStackSize", ("state.go", "type segIdx uint32", "type segIdx uint16"))

m("C06", "C06-current-thread-set-before-argument-transfer", "R06-guard:resumeThread:becomes-current-after-the-last-raising-step", ("coroutinelib.go", "\tth.Parent = L\n\tL.G.CurrentThread = th\n\ttop := L.GetTop()", "\ttop := L.GetTop()"), ("coroutinelib.go", "\t// handing the arguments over and setting the first frame up can fail (registry overflow): the\n", "\tth.Parent = L\n\tL.G.CurrentThread = th\n\t// handing the arguments over and setting the first frame up can fail (registry overflow): the\n"))

m("C08", "C08-statement-nesting-unbounded", "R08-terminate:compile:recursion-depth-bounded", ("compile.go", "\tif context.exprDepth > maxExprDepth {\n\t\traiseCompileError(context, sline(stmt), \"chunk has too many syntax levels\")\n\t}\n", ""))
m("C08", "C08-condition-nesting-unbounded", "R08-terminate:compile:recursion-depth-bounded", ("compile.go", "hasnextcond bool) { // {{{\n\tcontext.exprDepth++\n\tdefer leaveExpr(context)\n\tif context.exprDepth > maxExprDepth {\n\t\traiseCompileError(context, sline(expr), \"chunk has too many syntax levels\")\n\t}\n", "hasnextcond bool) { // {{{\n"))

m("C01", "C01-constant-pool-merges-signed-zero", "R01-alloc:ConstIndex:zero-constants-distinguished-by-sign", ("compile.go", "\t\t\tif n, ok := value.(LNumber); ok && n == 0 && math.Signbit(float64(n)) != math.Signbit(float64(lv.(LNumber))) {\n\t\t\t\t// 0 and -0 compare equal but are different constants (1/-0 is -inf)\n\t\t\t\tcontinue\n\t\t\t}\n", ""))
m("C17", "C17-lost-level-resolves-to-bottom-frame", "R17-where:GetStack:frame-only-at-the-exact-level", ("state.go", "\t}\n\t// a negative level falls among frames that tail calls have replaced: nothing is known about them\n\treturn &Debug{}, false", "\t} else if level < 0 && ls.stack.Sp() > 0 {\n\t\treturn &Debug{frame: ls.stack.At(0)}, true\n\t}\n\treturn &Debug{}, false"))

m("C19", "C19-kind-test-before-closed-test", "R19-closed:fileWriteAux:closed-test-before-any-answer", ("iolib.go", "func fileWriteAux(L *LState, file *lFile, idx int) int {\n\terrorIfFileIsClosed(L, file)\n\tif n := fileIsWritable(L, file); n != 0 {\n\t\treturn n\n\t}\n", "func fileWriteAux(L *LState, file *lFile, idx int) int {\n\tif n := fileIsWritable(L, file); n != 0 {\n\t\treturn n\n\t}\n\terrorIfFileIsClosed(L, file)\n"))

m("C15", "C15-char-wraps", "R15-positions:strChar:argument-in-0..255", ("stringlib.go", "\t\tif c < 0 || c > 255 {\n\t\t\tL.ArgError(i, \"invalid value\")\n\t\t}\n", ""))

m("C16", "C16-constant-condition-numeral-unchecked", "R16-onereader:numeral-checked-where-recognised:compileBranchCondition", ("compile.go", "\t\tif nex, ok := expr.(*ast.NumberExpr); ok {\n\t\t\t// a constant condition is not evaluated, but its numeral must still be one\n\t\t\tif _, err := parseNumber(nex.Value); err != nil {\n\t\t\t\traiseCompileError(context, sline(nex), \"malformed number near '%s'\", nex.Value)\n\t\t\t}\n\t\t}\n", ""))

m("C10", "C10-insert-leaves-holes", "R10-bounds:Insert:gap-filled-with-nil", ("state.go", "\t\t// the positions the list did not have yet hold nil\n\t\tfor i := top; i < reg; i++ {\n\t\t\tls.reg.Set(i, LNil)\n\t\t}\n", ""))
m("C10", "C10-concat-of-nothing", "R10-bounds:Concat:nothing-to-concatenate-reads-nothing", ("state.go", "\tif len(values) == 0 {\n\t\treturn \"\"\n\t}\n\ttop := ls.reg.Top()\n\tfor _, value := range values {", "\ttop := ls.reg.Top()\n\tfor _, value := range values {"))
m("C09", "C09-foreach-over-snapshot", "R10-bounds:ForEach:array-length-read-on-every-step", ("table.go", "\t\tfor i := 0; i < len(tb.array); i++ {\n\t\t\tif v := tb.array[i]; v != LNil && v != nil {", "\t\tfor i, v := range tb.array {\n\t\t\tif v != LNil && v != nil {"))

m("C16", "C16-tonumber-base10-by-absence", "R16-onereader:baseToNumber:base-10-is-the-standard-conversion", ("baselib.go", "\tbase := L.OptInt(2, 10)\n\tif base == 10 {", "\tbase := L.OptInt(2, 10)\n\tif L.Get(2) == LNil {"))
m("C16", "C16-tonumber-base-unchecked", "R16-onereader:baseToNumber:base-in-2..36-or-argument-error", ("baselib.go", "\tif base < 2 || base > 36 {\n\t\tL.ArgError(2, \"base out of range\")\n\t}\n", "\tif base < 2 {\n\t\tL.ArgError(2, \"base out of range\")\n\t}\n"))
m("C16", "C16-hex-through-parseuint", "R16-onereader:parseNumber:numerals-not-cut-at-64-bits", ("utils.go", "\t\tv, ok := parseDigits(digits[2:], 16)\n\t\tif !ok {", "\t\tu, uerr := strconv.ParseUint(digits[2:], 16, 64)\n\t\tv, ok := LNumber(u), uerr == nil\n\t\tif !ok {"))

m("C15", "C15-hex-of-negative-signed", "R15-flags:LNumber.Format:%x:unsigned-conversion", ("value.go", "\t\tdefaultFormat(uint64(int64(nm)), unsignedState{f, int64(nm) == 0}, c)\n", "\t\tdefaultFormat(int64(nm), unsignedState{f, int64(nm) == 0}, c)\n"))
m("C15", "C15-inf-through-fmt", "R15-flags:LNumber.Format:%f:non-finite-not-through-fmt", ("value.go", "\t\tif v := float64(nm); math.IsInf(v, 0) || math.IsNaN(v) {", "\t\tif v := float64(nm); math.IsNaN(v) {"))
m("C15", "C15-percent-s-through-fmt", "R15-flags:defaultFormat:%s-of-a-string-pads-by-bytes", ("utils.go", "\tif s, ok := v.(string); ok && c == 's' {", "\tif s, ok := v.(string); ok && c == 's' && len(s) == 0 {"))
m("C15", "C15-format-missing-argument", "R15-flags:strFormat:directive-without-argument-raises", ("stringlib.go", "\tif npat > len(args) {\n\t\tL.ArgError(top+1, \"no value\")\n\t}\n", ""))

m("C14", "C14-range-from-parsed-classes", "R14-index:rangeClass:ends-are-plain-characters", ("pm/pm.go", "\t\tcase p+2 < ec && src[p+1] == '-':\n\t\t\tset.Classes = append(set.Classes, &rangeClass{&charClass{int(ch)}, &charClass{int(src[p+2])}})\n\t\t\tp += 3\n", "\t\tcase p+2 < ec && src[p+1] == '-' && len(set.Classes) > 0:\n\t\t\tlast := set.Classes[len(set.Classes)-1]\n\t\t\tset.Classes[len(set.Classes)-1] = &rangeClass{last, &charClass{int(src[p+2])}}\n\t\t\tp += 3\n"))
m("C14", "C14-open-backref-not-marked", "R14-index:compilePattern:marks-reference-to-open-capture", ("pm/pm.go", "\t\tif ptr.open[pat.N*2] {\n\t\t\tunfinished = 1\n\t\t}\n", ""))
m("C14", "C14-open-backref-mark-ignored", "R14-index:recursiveVM:reference-to-open-capture-raises", ("pm/pm.go", "\t\tif idx >= m.CaptureLength()-1 || inst.Operand2 == 1 {", "\t\tif idx >= m.CaptureLength()-1 {"))

m("C14", "C14-backref-guard-off-by-one-unmarked", "R14-index:recursiveVM:Capture#2", ("pm/pm.go", "\t\tif idx >= m.CaptureLength()-1 || inst.Operand2 == 1 {", "\t\tif idx >= m.CaptureLength() {"))

m("C06", "C06-wrap-marks-the-thread", "R06-resumeapi:result-convention-written-outside-a-resume:coWrap", ("coroutinelib.go", "\tcoCreate(L)\n\tv := L.Get(L.GetTop())\n", "\tcoCreate(L)\n\tL.CheckThread(L.GetTop()).wrapped = true\n\tv := L.Get(L.GetTop())\n"), ("coroutinelib.go", "\tth.wrapped = wrapped\n", "\twrapped = th.wrapped\n"), ("coroutinelib.go", "\tth := L.CheckThread(1)\n\tif L.G.CurrentThread == th {", "\tth := L.CheckThread(1)\n\twrapped = th.wrapped\n\tif L.G.CurrentThread == th {"))
m("C06", "C06-api-resume-keeps-old-convention", "R06-resumeapi:(*LState).Resume:sets-result-convention-for-this-resume#1", ("state.go", "\tth.wrapped = false // this resume expects the status in front of the values\n", ""))

m("C04", "C04-arith-handler-before-conversion", "R04-events:objectArith:converts-before-looking-for-a-handler", ("vm.go", "\tif v1, ok1 := lnum.(LNumber); ok1 {\n\t\tif v2, ok2 := rnum.(LNumber); ok2 {\n\t\t\treturn numberArith(L, opcode, LNumber(v1), LNumber(v2))\n\t\t}\n\t}\n\top := L.metaOp2(lhs, rhs, event)\n\tif _, ok := op.(*LFunction); ok {\n\t\tL.reg.Push(op)\n\t\tL.reg.Push(lhs)\n\t\tL.reg.Push(rhs)\n\t\tL.Call(2, 1)\n\t\treturn L.reg.Pop()\n\t}\n", "\top := L.metaOp2(lhs, rhs, event)\n\tif _, ok := op.(*LFunction); ok {\n\t\tL.reg.Push(op)\n\t\tL.reg.Push(lhs)\n\t\tL.reg.Push(rhs)\n\t\tL.Call(2, 1)\n\t\treturn L.reg.Pop()\n\t}\n\tif v1, ok1 := lnum.(LNumber); ok1 {\n\t\tif v2, ok2 := rnum.(LNumber); ok2 {\n\t\t\treturn numberArith(L, opcode, LNumber(v1), LNumber(v2))\n\t\t}\n\t}\n"))
m("C04", "C04-unm-handler-before-conversion", "R04-events:handler[OP_UNM]:converts-before-looking-for-a-handler", ("vm.go", "\t\t\tif str, ok := unaryv.(LString); ok {\n\t\t\t\t// a string that converts to a number is negated as a number; a handler is looked for only otherwise\n\t\t\t\tif num, err := parseNumber(string(str)); err == nil {\n\t\t\t\t\tunaryv = num\n\t\t\t\t}\n\t\t\t}\n", ""))

m("C17", "C17-paren-restamps-function", "R17-lines:parser:taken-over-function-node-keeps-its-line", ("parse/parser.go", "\t\t\tif _, ok := yyDollar[2].expr.(*ast.FunctionExpr); !ok {\n\t\t\t\t// a function keeps the line of its own keyword (linedefined)\n\t\t\t\tyyVAL.expr.SetLine(yyDollar[1].token.Pos.Line)\n\t\t\t}\n", "\t\t\tyyVAL.expr.SetLine(yyDollar[1].token.Pos.Line)\n"))

m("C04", "C04-debug-getmetatable-protected", "R04-events:debugGetMetatable:reads-the-real-metatable", ("debuglib.go", "\tL.Push(L.metatable(L.CheckAny(1), true))\n", "\tL.Push(L.GetMetatable(L.CheckAny(1)))\n"))
m("C15", "C15-huge-finite", "R15-mathmap:huge:is-positive-infinity", ("mathlib.go", "LNumber(math.Inf(1))", "LNumber(math.MaxFloat64)"))

m("C16", "C16-yday-constant", "R16-time:osDate:field-components", ("oslib.go", "ret.RawSetString(\"yday\", LNumber(t.YearDay()))", "ret.RawSetString(\"yday\", LNumber(0))"))

m("C18", "C18-sort-nil-comparator-checked", "R18-lib:tableSort:nil-comparator-is-no-comparator", ("tablelib.go", "\tif L.GetTop() != 1 && L.Get(2) != LNil {", "\tif L.GetTop() != 1 {"))
m("C18", "C18-insert-extra-arguments", "R18-lib:tableInsert:two-or-three-arguments", ("tablelib.go", "\tif nargs != 2 && nargs != 3 {", "\tif nargs < 2 {"))

for _p in ("C13", "C19"):
    m(_p, _p + "-close-releases-standard-stream", "R19-reconcile:fileCloseAux:standard-stream-not-released", ("iolib.go", "\tif file.std {\n\t\t// closing it would close the descriptor for the whole process\n\t\tL.Push(LNil)\n\t\tL.Push(LString(\"cannot close standard file\"))\n\t\treturn 2\n\t}\n", ""))
    m(_p, _p + "-standard-streams-not-marked", "R19-reconcile:OpenIo:marks-standard-streams", ("iolib.go", "\t\tfile.Value.(*lFile).std = true\n", ""))

m("C01", "C01-andor-testset-by-operator-kind", "R01-peephole:compileLogicalOpExprAux:destination-written-only-by-jumps-that-leave", ("compile.go", "\t\tif jumplabel == lb.e && sreg != a {\n\t\t\t// the jump leaves the whole expression with this operand as its value: it has to\n\t\t\t// arrive in the destination; a jump to the next operand must not touch the destination\n\t\t\tcode.AddABC(OP_TESTSET, sreg, a, 0^flip, sline(expr))\n\t\t} else {\n\t\t\tcode.AddABC(OP_TEST, a, 0, 0^flip, sline(expr))\n\t\t}\n", "\t\tif !hasnextcond {\n\t\t\tcode.AddABC(OP_TEST, a, 0, 0^flip, sline(expr))\n\t\t} else {\n\t\t\tcode.AddABC(OP_TESTSET, sreg, a, 0^flip, sline(expr))\n\t\t}\n"))
m("C19", "C19-read-count-allocated-up-front", "R19-buffers:readBufioSize:allocation-bounded", ("utils.go", "\t\tif chunk > maxChunk {\n\t\t\tchunk = maxChunk\n\t\t}\n", ""))
m("C19", "C19-lines-without-reader-check", "R19-buffers:ioLinesIter:reads-only-through-an-existing-reader", ("iolib.go", "\t\ttoclose = true\n\t}\n\terrorIfFileIsClosed(L, file)\n\tif file.reader == nil {\n\t\tL.RaiseError(\"%s is opened for only writing.\", file.Name())\n\t}\n", "\t\ttoclose = true\n\t}\n\terrorIfFileIsClosed(L, file)\n"))
m("C08", "C08-read-error-is-a-nul-byte", "R08-eof:readNext:any-read-error-ends-the-input", ("parse/lexer.go", "\tif err != nil {\n\t\t// io.EOF or a failing reader", "\tif err == io.EOF {\n\t\t// io.EOF or a failing reader"))
for _p in ("C05", "C12"):
    m(_p, _p + "-dostring-pushes-unprotected", "R05-convert:DoString:nothing-raises-before-the-protection", ("auxlib.go", "func (ls *LState) DoString(source string) error {\n\tif fn, err := ls.LoadString(source); err != nil {\n\t\treturn err\n\t} else {\n\t\tif err := ls.pushProtected(fn); err != nil {\n\t\t\treturn err\n\t\t}\n", "func (ls *LState) DoString(source string) error {\n\tif fn, err := ls.LoadString(source); err != nil {\n\t\treturn err\n\t} else {\n\t\tls.Push(fn)\n"))
    m(_p, _p + "-callbyparam-pushes-unprotected", "R05-convert:CallByParam:nothing-raises-before-the-protection", ("state.go", "\tif cp.Protect {\n\t\tif err := ls.pushProtected(cp.Fn, args...); err != nil {\n\t\t\treturn err\n\t\t}\n\t\treturn ls.PCall(len(args), cp.NRet, cp.Handler)\n\t}\n\tls.Push(cp.Fn)\n\tfor _, arg := range args {\n\t\tls.Push(arg)\n\t}\n", "\tls.Push(cp.Fn)\n\tfor _, arg := range args {\n\t\tls.Push(arg)\n\t}\n\tif cp.Protect {\n\t\treturn ls.PCall(len(args), cp.NRet, cp.Handler)\n\t}\n"))

m("C02", "C02-tailcall-moves-one-slot-less", "R02-tailframe:TAILCALL:moves-the-whole-frame", ("vm.go", "\t\t\t\t\tn := reg.Top() - RA\n", "\t\t\t\t\tn := reg.Top() - RA - 1\n"))
m("C04", "C04-unm-handler-one-argument", "R04-events:handler[OP_UNM]:handler-gets-operand-twice", ("vm.go", "\t\t\t\t\treg.Push(unaryv)\n\t\t\t\t\treg.Push(unaryv)\n\t\t\t\t\tL.Call(2, 1)\n", "\t\t\t\t\treg.Push(unaryv)\n\t\t\t\t\tL.Call(1, 1)\n"))
m("C07", "C07-bulk-move-across-jump-target", "R07-skipgroup:patchCode:bulk-move-ends-at-jump-targets", ("compile.go", "\t// the instructions a jump can land on: a bulk move must not swallow one of them\n\ttarget := make(map[int]bool, len(context.labelPc))\n\tfor _, lpc := range context.labelPc {\n\t\ttarget[lpc+1] = true\n\t}\n", ""), ("compile.go", "\t\tif moven > 0 && target[pc] {\n\t\t\t// a jump lands here: the group ends before this instruction\n\t\t\tif moven > 1 {\n\t\t\t\tcontext.Code.SetOpCode(pc-moven, OP_MOVEN)\n\t\t\t\tcontext.Code.SetC(pc-moven, intMin(moven-1, opMaxArgsC))\n\t\t\t}\n\t\t\tmoven = 0\n\t\t}\n", ""))
m("C17", "C17-function-statement-line-of-parenthesis", "R17-lines:parser:function-statement-defined-at-its-keyword", ("parse/parser.go", "\t\t\tyyDollar[3].funcexpr.SetLine(yyDollar[1].token.Pos.Line) // linedefined of a function statement is the line of its keyword\n", ""))

for _p in ("C11", "C12"):
    m(_p, _p + "-kill-cancels-with-live-descendants", "R11-threadctx:kill:releases-only-a-context-without-live-descendants", ("state.go", "\tfor th := ls; th != nil && th.Dead && th.ctxChildren == 0 && th.ctxCancelFn != nil; {", "\tfor th := ls; th != nil && th.Dead && th.ctxCancelFn != nil; {"))
    m(_p, _p + "-newthread-does-not-count-the-child", "R11-threadctx:NewThread:creator-recorded-and-counted", ("state.go", "\t\tthread.ctxOwner = ls\n\t\tls.ctxChildren++\n", "\t\tthread.ctxOwner = ls\n"))
m("C11", "C11-context-from-what-the-creators-was-derived-from", "R11-threadctx:NewThread:context-derived-from-the-creators-own", ("state.go", "\t\tthread.ctx, f = context.WithCancel(ls.ctx)\n", "\t\tbase := ls.ctx\n\t\tif ls.ctxOwner != nil && ls.ctxOwner.ctx != nil {\n\t\t\tbase = ls.ctxOwner.ctx\n\t\t}\n\t\tthread.ctx, f = context.WithCancel(base)\n"))
m("C12", "C12-deep-nested-calls-unbounded", "R12-full:callR:nested-call-depth-bounded", ("state.go", "\tif ls.stack.Sp() >= maxNestedCallDepth {\n\t\tls.RaiseError(\"C stack overflow\")\n\t}\n", ""))

m("C20", "C20-preload-through-the-global", "R20-order:loLoaderPreload:package-table-not-through-the-global", ("loadlib.go", "\tpreload := L.GetField(packageTable(L), \"preload\")", "\tpreload := L.GetField(L.GetField(L.Get(EnvironIndex), \"package\"), \"preload\")"))
m("C13", "C13-loop-marker-shared-again", "R13-globals:escape", ("baselib.go", "\tloopdetection := L.G.loopDetection\n", "\tloopdetection := sharedLoopMarker\n"), ("baselib.go", "func loRequire(L *LState) int {", "var sharedLoopMarker = &LUserData{}\n\nfunc loRequire(L *LState) int {"))

m("C15", "C15-unsigned-conversion-raw-flags", "R15-flags:LNumber.Format:unsigned-conversions-hide-the-sign-flags", ("value.go", "\t\tdefaultFormat(uint64(int64(nm)), unsignedState{f, int64(nm) == 0}, c)\n", "\t\tdefaultFormat(uint64(int64(nm)), f, c)\n"))
m("C15", "C15-sub-decrements-before-resolving", "R15-positions:luaIndex2StringIndex:decrement-only-of-a-positive-position", ("stringlib.go", "\tif start && i > 0 {\n\t\ti -= 1\n\t}\n", "\tif start && i != 0 {\n\t\ti -= 1\n\t}\n"))
m("C15", "C15-deg-uses-rad-factor", "R15-mathmap:entry:deg", ("mathlib.go", "L.Push(LNumber(float64(L.CheckNumber(1)) / (math.Pi / 180)))", "L.Push(LNumber(float64(L.CheckNumber(1)) * (math.Pi / 180)))"))
m("C17", "C17-localname-strict-start", "R17-scope:LocalName:scope-starts-at-StartPc", ("function.go", "p.DbgLocals[i].StartPc <= pc; i++ {", "p.DbgLocals[i].StartPc < pc; i++ {"))
m("C20", "C20-registermodule-skips-existing-table", "R20-order:RegisterModule:adds-functions-to-an-existing-table", ("auxlib.go", "\t// the functions are added to the module's table whether it was created just now or existed already\n\tfor fname, fn := range funcs {\n\t\tmodtb.RawSetString(fname, ls.NewFunction(fn))\n\t}\n\treturn modtb\n", "\tif !ok {\n\t\tfor fname, fn := range funcs {\n\t\t\tmodtb.RawSetString(fname, ls.NewFunction(fn))\n\t\t}\n\t}\n\treturn modtb\n"))
m("C20", "C20-require-reads-registry-loaders", "R20-order:loRequire:searchers-from-package.loaders", ("baselib.go", "\tloaders, ok := L.GetField(packageTable(L), \"loaders\").(*LTable)", "\tloaders, ok := L.GetField(L.Get(RegistryIndex), \"_LOADERS\").(*LTable)"))
for _p in ("C06", "C12"):
    m(_p, _p + "-yield-room-not-checked-first", "R06-killarg:switchToParentThread:room-checked-before-the-switch", ("vm.go", "\tif !kill && !parent.reg.canHold(nargs+1) {\n\t\t// a yield: the resumer must have room for the values (and the leading true) before anything is\n\t\t// switched. Where it has not, the yield fails as an error of the coroutine - not half-way through\n\t\t// the hand-over, which left the thread suspended with the same yield still pending\n\t\tL.RaiseError(\"registry overflow\")\n\t}\n", ""))

m("C06", "C06-resume-finished-by-empty-stack", "R06-resumeapi:Resume:finished-told-by-the-dead-flag", ("state.go", "\t} else if th.Dead {\n\t\treturn ResumeOK, nil, ret\n\t}\n", "\t} else if th.stack.IsEmpty() {\n\t\treturn ResumeOK, nil, ret\n\t}\n"))
for _p in ("C06", "C12"):
    m(_p, _p + "-resume-values-moved-unchecked", "R06-resumeapi:resumeThread:room-checked-before-the-values-move", ("coroutinelib.go", "\t\tif !th.reg.canHold(nargs) {\n\t\t\t// the values of this resume do not fit into the suspended coroutine's registry: refused before\n\t\t\t// anything is moved (an overflow half-way left the values on its stack and the coroutine unusable)\n\t\t\tmsg := \"registry overflow\"\n\t\t\tif wrapped {\n\t\t\t\tL.RaiseError(msg)\n\t\t\t\treturn 0\n\t\t\t}\n\t\t\tL.Push(LFalse)\n\t\t\tL.Push(LString(msg))\n\t\t\treturn 2\n\t\t}\n", ""))
m("C17", "C17-temporary-for-index-zero", "R17-scope:findLocal:temporary-only-for-a-positive-index", ("state.go", "\tif no > 0 && top-frame.LocalBase >= no {", "\tif top-frame.LocalBase >= no {"))

m("C20", "C20-package-table-through-loaded", "R20-order:packageTable:own-registry-slot", ("loadlib.go", "\treturn L.GetField(L.Get(RegistryIndex), \"_PACKAGE\")\n", "\treturn L.GetField(L.GetField(L.Get(RegistryIndex), \"_LOADED\"), LoadLibName)\n"))
for _p in ("C11", "C05"):
    m(_p, _p + "-pcall-does-not-consult-the-context", "R11-exit:PCall:context-consulted-after-the-call", ("state.go", "\tls.Call(nargs, nret)\n\tif ls.ctx != nil && ls.ctx.Err() != nil {\n", "\tls.Call(nargs, nret)\n\tif false && ls.ctx != nil && ls.ctx.Err() != nil {\n"))
m("C19", "C19-read-walks-the-format-string", "R19-buffers:fileReadAux:format-selected-by-the-character-after-the-star", ("iolib.go", "\t\t\tswitch options[1] {\n", "\t\t\tfor _, opt := range options[1:2] {\n\t\t\t\t_ = opt\n\t\t\t}\n\t\t\tswitch options[1] {\n"))
m("C19", "C19-setvbuf-line-not-accepted", "R19-options:fileSetVBuf:filebufOptions:list-and-cases-agree", ("iolib.go", "var filebufOptions = []string{\"no\", \"full\", \"line\"}", "var filebufOptions = []string{\"no\", \"full\"}"))
m("C19", "C19-open-default-mode-by-count", "R19-options:ioOpenFile:default-mode-for-absent-and-nil", ("iolib.go", "\tif L.Get(2) == LNil {\n\t\t// no mode, or nil: the default\n\t\tL.SetTop(1)\n", "\tif L.GetTop() == 1 {\n"))
m("C14", "C14-gsub-no-match-returns-the-argument", "R14-gsub:strGsub:first-result-is-a-string-built-here", ("stringlib.go", "\t\t// the subject as a string (the argument itself may be a number)\n\t\tL.Push(LString(str))\n", "\t\tL.SetTop(1)\n"))
m("C15", "C15-log-of-subnormal-unscaled", "R15-mathmap:lnOf:math.Log#", ("mathlib.go", "\tif x > 0 && x < 0x1p-1022 {\n\t\treturn math.Log(x*0x1p+54) - 54*math.Ln2\n\t}\n", ""))
m("C15", "C15-log10-scaled-wrong-correction", "R15-mathmap:log10Of:math.Log10#1:no-subnormal-argument", ("mathlib.go", "- 54*(math.Ln2/math.Ln10)", "- 54*math.Ln2"))
for _p in ("C05", "C12"):
    m(_p, _p + "-error-value-pushed-checked", "R12-grow:raise-sites:Error#1:raised-value-pushed-without-raising", ("state.go", "\t\tif ls.reg.IsFull() {\n\t\t\t// as in raiseError: the value being raised has to fit, whatever the limit says\n\t\t\tls.reg.forceResize(ls.reg.Top() + 1)\n\t\t}\n\t\tls.reg.Push(lv)\n", "\t\tls.Push(lv)\n"))
m("C17", "C17-for-hidden-variables-in-scope-at-once", "R17-scope:compileNumberForStmt:hidden-variables-in-scope-from-the-loop-entry", ("compile.go", "\tcontext.StartScopeHere()\n\tcode.AddASbx(OP_FORPREP, rindex, 0, sline(stmt))\n", "\tcode.AddASbx(OP_FORPREP, rindex, 0, sline(stmt))\n"))
m("C17", "C17-generic-for-scope-start-before-the-explist", "R17-scope:compileGenericForStmt:hidden-variables-in-scope-from-the-loop-entry", ("compile.go", "\tcompileRegAssignment(context, hidden, stmt.Exprs, context.RegTop()-3, 3, sline(stmt))\n\n\tcontext.StartScopeHere()\n", "\tcontext.StartScopeHere()\n\tcompileRegAssignment(context, hidden, stmt.Exprs, context.RegTop()-3, 3, sline(stmt))\n\n"))
for _p in ("C02", "C06"):
    m(_p, _p + "-parenthesised-return-open", "R02-full:compileReturnStmt:parenthesised-call-returns-one", ("compile.go", "\t\t\t\tcode.AddABC(OP_RETURN, a, 2, 0, sline(stmt))\n", "\t\t\t\tcode.AddABC(OP_RETURN, a, 0, 0, sline(stmt))\n"))
m("C10", "C10-upvalue-index-without-frame-test", "R10-bounds:Get:current-frame-used-only-where-there-is-one", ("state.go", "\t\t\tif ls.currentFrame == nil {\n\t\t\t\t// top level: no function is running, so there are no upvalues\n\t\t\t\treturn LNil\n\t\t\t}\n", ""))
m("C14", "C14-parser-recursion-uncapped", "R14-depth:parsePattern:recursion-capped", ("pm/pm.go", "\t\t\t\tif sc.depth > maxCaptureNesting {\n\t\t\t\t\tpanic(newError(sc.CurrentPos(), \"too many captures\"))\n\t\t\t\t}\n", ""))
m("C18", "C18-concat-separator-strict", "R18-lib:tableConcat:separator-may-be-a-number", ("tablelib.go", "\tsep := LString(\"\")\n\tif L.Get(2) != LNil {\n\t\t// a string, or a number (which is converted, as wherever a string is expected)\n\t\tsep = LString(L.CheckString(2))\n\t}\n", "\tsep := LString(L.OptString(2, \"\"))\n"))
m("C06", "C06-refusal-after-the-first-frame", "R06-resumeapi:Resume:first-frame-after-the-refusals", ("state.go", "\tisstarted := th.isStarted()\n\n\tif ls.G.CurrentThread == th {", "\tisstarted := th.isStarted()\n\tif !isstarted {\n\t\tth.stack.Push(callFrame{Fn: fn, LocalBase: 1, NRet: MultRet})\n\t}\n\n\tif ls.G.CurrentThread == th {"))
if __name__ == "__main__":
    main()
