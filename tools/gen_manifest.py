#!/usr/bin/env python3
"""Regenerates /verif/MANIFEST.json from the table below (kept next to the analyser so that the
claims and the registered rules change together)."""
import json, os, sys
HERE = os.path.dirname(os.path.dirname(os.path.abspath(__file__)))

# property -> (claimed?, technique, level text, note)
P = {}
def claim(pid, technique, text, note, ref):
    P[pid] = dict(claimed=True, technique=technique, text=text, note=note, ref=ref)
def na(pid, reason):
    P[pid] = dict(claimed=False, reason=reason)

BASE = ("Trusted base: go/types+go/ssa (x/tools v0.29.0) model of the files the real build compiles; the axiom that a call "
        "through LState.Panic never returns; VTA/CHA over-approximate dynamic calls. ")

claim("C01", "static analysis: sibling expression-tree equality (constant folder vs VM arithmetic), encoder/decoder table agreement over SSA shift/mask extraction, exhaustiveness of the opcode table, who-may-write on the number allocator",
      "Decides structural necessary conditions only: folded constant expressions use the VM's own arithmetic, every handler decodes exactly the fields the encoder writes for its opcode's format, every opcode is handled and emitted through the right encoder, boxed-number pages are never reused. It does not decide that emitted code computes the Lua result.",
      BASE + "Not covered: semantics of emitted instruction sequences.", "DESIGN.md §3 C01")

claim("C03", "static analysis: must-pass-through / dominance on the pruned SSA CFG (close-upvalues before register reclaim in every recover arm, close before every register write in frame-discarding handlers), who-may-close and who-may-read ownership (typestate of the RefUpvalue flag), operand provenance of emitted OP_CLOSE",
      "Decides that unwinding and every scope-exit construct closes up-values with a bound tied to the registers being discarded, that nothing on the raise path closes surviving frames' up-values, that RefUpvalue is only consulted when final and OP_CLOSE's operand is never a literal, and that the VM capture loop matches the compiler's capture list. It does not decide which block is marked or sharing/freshness of variables.",
      BASE + "Register index of a local = its ordinal among active locals (compiler invariant, assumed).", "DESIGN.md §3 C03")
claim("C05", "static analysis: must-pass-through on the pruned SSA CFG of PCall's deferred closures (stack pointer, current frame, register top, Panic mode restored from single-assignment captured cells on every path), panic-instruction reachability, who-may-call (entry points reach execution only through PCall), computed no-return set",
      "Decides that every path out of a recovered panic restores the interpreter state captured before the protected call, that no Go panic is re-raised from the recover arms, that foreign panics are converted, and that the Lua/Go protected entry points all go through PCall. It does not decide exactly-once delivery or side-effect prefixes.",
      BASE + "A deferred closure runs on every exit of its function.", "DESIGN.md §3 C05")
claim("C12", "static analysis: sibling agreement by atom-wise comparison of path conditions (IsFull vs Push overflow per stack implementation, Push.Idx vs Sp()), dominance of guards (IsFull before every frame push, grow check before every register store), effect-sequence equality of the two main loops, option plumbing",
      "Decides that overflow of either call-stack implementation and of the registry is detected by a guard that raises an ordinary Lua error before the faulting store, that raiseError cannot recurse on a full registry, that the context-aware loop is the plain loop plus a poll, and that Options reach the constructors unchanged. It does not decide equality of behaviour below the limits.",
      BASE + "Go bounds checks: an element store at i fails exactly when i >= len.", "DESIGN.md §3 C12")

claim("C07", "static analysis: range-guard dominance with linear-form matching over SSA path conditions (narrowing conversions, RK/Bx/sBx operand widths, label-id ceiling), constant-under-guard detection for raw code words, writer/reader agreement on multi-word groups (VM trailing-word reads vs patchCode's scan), lock-step ownership of code/line tables, must-pass-through of the final OP_RETURN",
      "Decides that every value the compiler writes into a fixed-width operand or prototype field has passed a raising range check that fits the field, that multi-word groups are skipped by the peephole pass exactly where the VM consumes trailing words, that the code ends in a return and the line table is as long as the code. It does not decide register-operand bounds (post-hoc high-water scan), label definedness or jump-target alignment.",
      BASE + "codeStore.LastPC() is non-decreasing while one statement is compiled.", "DESIGN.md §3 C07")

claim("C11", "static analysis: dominance and cycle analysis on the pruned SSA CFG (dispatch only on the default arm of a non-blocking select on ctx.Done(), every loop cycle passes the poll, Done arm raises), who-may-call/who-may-index ownership (jumpTable, mainLoop field), paired-store rule for ctx/mainLoop, path exploration restricted to ctx!=nil for blocking channel operations",
      "Decides that no instruction is dispatched without a context poll on the loop SetContext installs, that byte-code is entered only through the per-state loop selection, that coroutines inherit a child context, and that every blocking channel operation watches ctx.Done() whenever a context is attached. It does not decide promptness inside long-running host functions.",
      BASE + "context.Context.Done() is closed when the context is done.", "DESIGN.md §3 C11")

claim("C09", "static analysis: per-exit routing analysis of the four keyed accessors on the pruned SSA CFG (array predicate established by path conditions, or a dominating hash-part access; boundary-operator agreement), who-may-write ownership of dict/strdict/keys/k2i with shape rules (keys only grows by append, nothing deletes from k2i), key-validation who-may-call rule for raw stores",
      "Decides that a key is routed to the same part by every keyed accessor, that only the two owning setters touch the hash structures and record every new key's position exactly once, and that arbitrary Lua keys reach the raw store only through the nil/NaN-rejecting RawSet. It does not decide the map/border/traversal behaviour under histories.",
      BASE + "Go map semantics for dict/strdict.", "DESIGN.md §3 C09")

claim("C19", "static analysis: typestate by guard dominance on the pruned SSA CFG with interprocedural summaries (every touch of fp/reader/writer/pp is dominated by the closed-handle guard on the same file), must-pass-through (read buffer abandoned on every exit after a write, before every seek; flush before close), table agreement of the open-mode switch with the ISO C fopen table using the os package's constants",
      "Decides that no operation can reach the descriptor, reader, writer or process of a closed handle without raising, that the single-cursor reconciliation steps lie on every path where they are needed, and that the mode switch opens files with the flags ISO C prescribes. It does not decide what bytes are read after which writes.",
      BASE + "ISO C fopen mode table written out in the checker.", "DESIGN.md §3 C19")

claim("C13", "static analysis: who-may-write ownership of every package-level variable (stores, element/field stores through loaded pointers, map updates, writes through parameters one call deep, escape of shared mutable objects into Lua-visible storage), call-graph reachability (VTA) of FunctionProto writers from the execution roots with Compile removed, guard dominance for channel payloads",
      "Decides that the library packages have no run-time writes to package-level state, that nothing the VM can reach without going through Compile writes a prototype, and that every channel payload passed the goroutine-safety check that refuses functions, userdata, threads and tables with metatables. It does not decide heap race freedom or delivery order (Go runtime).",
      BASE + "Exported configuration variables are set by the embedder before states run.", "DESIGN.md §3 C13")

claim("C16", "static analysis: who-may-call ownership (one numeral reader: strconv/fmt scanning functions only in parseNumber, the explicit-base arm of tonumber and two allow-listed sites; disallowed constant argument base 0), error-arm-must-raise rule in the compiler, verb-set exclusion by path conditions (q never reaches fmt), table agreement of the strftime layouts with Go reference-time tokens and the C-locale meanings, writer/reader field-name agreement of os.date('*t') and os.time",
      "Decides that every place that turns text into a number uses the same reader, that malformed numerals are compile errors, that %q is not rendered by Go's fmt, that every strftime layout is made of real layout tokens with the directive's C-locale meaning, and that os.date/os.time use the same field names, components and zone. It does not decide escape decoding, long brackets or shortest-round-trip printing (value properties).",
      BASE + "C-locale strftime meanings and Go reference-time tokens written out in the checker.", "DESIGN.md §3 C16")

claim("C14", "static analysis: exhaustiveness of the pattern VM dispatch and of the pattern compiler's type switch against the constants/types the parser produces, panic-operand typing over package pm, guard dominance and argument identity for the recursion cap, loop-progress analysis of Find's scan index over phi edges, taint of the subject slice (no write, no foreign callee), consumer set of the unsafe string view",
      "Decides that no pattern construct or opcode is left without a handler, that pm only panics with *pm.Error and the string library raises it, that the matcher's recursion is capped on every recursive call, that the scan position strictly advances, and that the subject bytes (aliasing an immutable Lua string) are never written. It does not decide match extents/captures nor run-time slice panics inside the matcher.",
      BASE + "io.Writer.Write does not modify its argument.", "DESIGN.md §3 C14")
claim("C15", "static analysis: disallowed-callee / disallowed-conversion rule over the string library (rune-aware APIs, range over string, rune conversions), verb-set analysis by path conditions (c never reaches fmt with an integer), table agreement of the math library map with libm names including argument order and result order (structural value keys)",
      "Decides that string functions cannot treat Lua strings as UTF-8, that %c writes one byte, that each libm-named math entry calls exactly that function with its arguments and results in order, and that % and math.mod share one implementation. It does not decide index clamping, printf flag rendering or random's range.",
      BASE + "Go's math package returns the IEEE result of each function.", "DESIGN.md §3 C15")

claim("C02", "static analysis: must-pass-through and exactly-once (no second event reachable) on the pruned SSA CFG of OP_TAILCALL, callGFunction, OP_RETURN and RemoveCallerFrame; path-condition check that frame pushes sit on the host-callee arm; sibling agreement of the two frame constructors",
      "Decides the frame neutrality of tail calls: a Lua callee reuses the running frame, a host callee's frame always goes through the caller-frame removal, and every return path pops exactly one frame; 'return f(args)' (and only the non-parenthesised form) is compiled to OP_TAILCALL. It does not decide argument/result adjustment (arithmetic on run-time counts).",
      BASE, "DESIGN.md §3 C02")
claim("C04", "static analysis: call-graph reachability (VTA) from the raw operations to the metamethod machinery, table agreement of the event-name constants reaching the lookup helpers with the Lua 5.1 manual §2.8 table, argument-identity checks for operand order and for the swapped/negated __le fallback, push-sequence shape before handler calls",
      "Decides that rawget/rawset/rawequal cannot reach a handler, that every operation looks up the event the manual prescribes with its operands in source order (left operand first), and that handlers are invoked as (handler, operands…) for one result. It does not decide raw-first lookup order, absent-key conditions or chain depth.",
      BASE + "Lua 5.1 manual §2.8 event table written out in the checker.", "DESIGN.md §3 C04")
claim("C06", "static analysis: guard dominance (dead/running tests before every threadRun), must-pass-through with the no-return axiom as an exit (every error arm with a resumer releases and kills before re-raising), constant-argument table of switchToParentThread call sites, phi-edge table of Status",
      "Decides that a dead or running coroutine cannot be resumed, that every way an error leaves a coroutine kills it and restores the resumer as current thread (plain and wrapped arms agree), that only the yield site keeps a coroutine alive, and that status derives its answers from Dead/CurrentThread/Parent in that order. It does not decide payload transfer or register offsets.",
      BASE, "DESIGN.md §3 C06")

claim("C08", "static analysis: producer/consumer exhaustiveness over the AST sum types (types.Implements vs type-switch cases, grammar composite literals vs compiler switches), panic-operand typing on the load path (static-call closure from Compile, package parse), loop-exit analysis of every scanner loop by partial evaluation of its exit conditions at end of input (constant propagation of EOF = -1 through pure predicates)",
      "Decides that no AST shape the grammar can produce lacks a compile case (which is what makes the compiler's sentinel panics unreachable), that everything that can be thrown on the load path is converted into an error value, and that no scanner loop can spin at end of input. It does not decide run-time index/nil panics inside compile.go, termination of the generated LALR driver, or that every Lua 5.1 text is accepted.",
      BASE + "The goyacc-generated driver terminates on every token sequence.", "DESIGN.md §3 C08")
claim("C10", "static analysis: forwarding-shape check (each object-level API method is a single call of the VM's own helper with parameters in order and fixed constants; the matching handler calls the same helper), guard analysis by path conditions for every register access derived from an API index (>= frame base for negative, < top for positive indices)",
      "Decides that the Go API's object operations are the VM's operations by construction and that Get/Replace/Pop/SetTop/Remove/indexToReg cannot reach registers below the current frame's base. It does not decide the NRet contract or result selection of calls.",
      BASE, "DESIGN.md §3 C10")
claim("C17", "static analysis: syntax-tree query over the grammar actions and compile.go (every node composite literal has SetLine — and SetLastLine for block-carrying kinds — called on the same access path), who-may-read ownership of the scanner's byte reader, pairing / must-pass-through of EnterBlock, LeaveBlock and EndScope on the pruned SSA CFG, index-expression shape of the line lookup",
      "Decides that every AST node is positioned, that every input byte passes the line counter, that scopes are opened and closed in pairs with pc ranges recorded, and that positions are read at Pc-1 of the frame's own prototype. It does not decide which line each instruction receives.",
      BASE, "DESIGN.md §3 C17")
claim("C18", "static analysis (narrow): exact SSA shape of lValueArraySorter.Swap/Len/Less (pure exchange, operands of the comparator), delegation table of the table library to the LTable list helpers with argument positions; shares R09-route",
      "Decides only that sort can only permute the table's own array and calls the comparator with exactly the two elements compared, and that the library functions reach the list through the list helpers with the documented argument positions. List operations themselves (shifting, ranges, ordering) are run-time quantities and are not decided.",
      BASE + "package sort only rearranges through Swap.", "DESIGN.md §3 C18")
claim("C20", "static analysis: guard dominance and must-pass-through in require (cache test before every loader call, sentinel stored after the search and before the module call, sentinel test raises, every path after the module call caches a value), order of the searcher list, same-object checks for the published tables, key-constant checks for preload registration",
      "Decides the ordering skeleton of require and of the package tables. It does not decide at-most-once loading under arbitrary histories or error texts.",
      BASE, "DESIGN.md §3 C20")

for pid in ["C%02d" % i for i in range(2, 21)]:
    if pid not in P:
        na(pid, "check not built yet in this session (planned rules: DESIGN.md §3 %s); not claimed until its rules run clean" % pid)

def main():
    checks = []
    nas = []
    # the clauses each check decides are kept next to the rules in the analyser: take the current text from it
    import subprocess
    desc = {}
    try:
        out = subprocess.run([os.path.join(HERE, "bin", "verifcheck"), "-describe"], capture_output=True, text=True, check=True).stdout
        desc = json.loads(out)
    except Exception as e:
        print("warning: verifcheck -describe failed (%s); keeping the static texts" % e, file=sys.stderr)
    for pid, d in desc.items():
        if pid in P and P[pid]["claimed"]:
            P[pid]["text"] = "Structural necessary conditions only, decided for every path of the current source (level other). " + d["explanation"]
    # the rule families each check actually ran on its last run (from its evidence file): the explanation above
    # names the planned ones, rules added by later seeding rounds are catalogued in DESIGN.md §7.1
    for pid in P:
        if not P[pid]["claimed"]:
            continue
        try:
            ev = json.load(open(os.path.join(HERE, "evidence", pid + ".json")))
            fams = sorted(r for r in ev.get("coverage", {}).get("rule_stats", {}) if not r.startswith("T"))
            if fams:
                P[pid]["text"] += " Rule families run (those not named above are described in DESIGN.md §7.1): " + ", ".join(fams) + "."
        except Exception:
            pass
    for pid in sorted(P):
        p = P[pid]
        if p["claimed"]:
            checks.append({
                "property_id": pid,
                "quick_cmd": "./check %s quick" % pid,
                "thorough_cmd": "./check %s thorough" % pid,
                "evidence_file": "/verif/evidence/%s.json" % pid,
                "replay_cmd_template": "./check %s quick  # replay file: {path}" % pid,
                "engine": "verifcheck",
                "level_claimed": {"category": "other", "text": p["text"], "design_ref": p["ref"]},
                "level_note": p["note"],
                "technique": p["technique"],
            })
        else:
            nas.append({"property_id": pid, "reason": p["reason"]})
    m = {
        "version": 1,
        "setup_cmd": "cd /verif/analyzer && GOFLAGS=-mod=mod GOPROXY=off GOSUMDB=off GOTOOLCHAIN=local GOWORK=off go build -o /verif/bin/verifcheck .",
        "hooks": {
            "guard": "verif",
            "enable": "none needed: static analysis reads /repo's sources as the normal build compiles them; no hook commits exist",
            "baseline_off_cmd": "cd /repo && go test -vet=off -count=1 -timeout 25m ./...",
            "source_commits": [],
            "add_only": True,
        },
        "engines": [{
            "name": "verifcheck",
            "path": "/verif/analyzer",
            "serves_properties": [c["property_id"] for c in checks],
            "kind_free_text": "repository-specific static analyser (go/packages + go/ssa + VTA call graph): pruned-CFG dominance and must-pass-through, ownership of fields/globals, encoder/decoder and sibling table agreement, exhaustiveness",
        }],
        "checks": checks,
        "not_applicable": nas,
        "notes": "All checks are static: they load /repo's current working tree on every run and never execute the interpreter. Exit 0 held / 1 VIOLATION / 2 undecided (unresolved anchor, type errors, instance floor not met). Known genuine defects are listed in /verif/KNOWN_FINDINGS.txt.",
    }
    json.dump(m, open(os.path.join(HERE, "MANIFEST.json"), "w"), indent=1)
    print("wrote MANIFEST.json: %d checks, %d not_applicable" % (len(checks), len(nas)))

if __name__ == "__main__":
    main()
