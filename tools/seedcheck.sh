#!/bin/sh
# usage: tools/seedcheck.sh <seed-dir containing patch.diff and zz_seed_demo_test.go> [--skip-suite]
# Verifies a seeded change in a fresh scratch worktree of /repo HEAD (never in /repo): the patch applies and
# compiles, the existing suite passes with it, the demonstration fails with it and passes without it; then
# runs every property's quick check against the patched copy.  Prints a summary; removes the worktree.
set -u
SEED=$(cd "$1" && pwd); SKIP=${2:-}
export GOFLAGS=-mod=mod GOPROXY=off GOSUMDB=off GOTOOLCHAIN=local GOWORK=off
W=$(mktemp -d /tmp/vseed.XXXXXX); rmdir "$W"
git -C /repo worktree add --detach -q "$W" HEAD || exit 3
trap 'git -C /repo worktree remove --force "$W" >/dev/null 2>&1; rm -rf "$W"' EXIT
cd "$W"
cp "$SEED/zz_seed_demo_test.go" . 2>/dev/null
DEMO_BASE=skip
if [ -f zz_seed_demo_test.go ]; then
  if go test -vet=off -count=1 -run 'TestSeedDemo' . >/tmp/vseed_base.log 2>&1; then DEMO_BASE=pass; else DEMO_BASE=FAIL; fi
fi
git apply "$SEED/patch.diff" || { echo "SEED: patch does not apply"; exit 3; }
go build ./... || { echo "SEED: does not compile"; exit 4; }
DEMO_MUT=skip
if [ -f zz_seed_demo_test.go ]; then
  if go test -vet=off -count=1 -run 'TestSeedDemo' . >/tmp/vseed_mut.log 2>&1; then DEMO_MUT=PASS; else DEMO_MUT=fail; fi
fi
SUITE=skipped
if [ "$SKIP" != "--skip-suite" ]; then
  mv zz_seed_demo_test.go /tmp/vseed_demo.go.$$ 2>/dev/null
  if go test -vet=off -count=1 ./... >/tmp/vseed_suite.log 2>&1; then SUITE=pass; else SUITE=FAIL; fi
  rm -f /tmp/vseed_demo.go.$$
fi
rm -f zz_seed_demo_test.go
echo "SEED $(basename "$SEED"): demo-without-change=$DEMO_BASE demo-with-change=$DEMO_MUT suite-with-change=$SUITE"
/verif/bin/verifcheck -prop all -repo "$W" -verif /verif -no-evidence 2>&1 | grep -E "^(violation|UNDECIDED|CHECKER)|obligations, [1-9][0-9]* violated" | sed "s#$W/##g" | cut -c1-330
echo "SEED $(basename "$SEED"): checks done"
