#!/bin/sh
# usage: tools/benigncheck.sh <patch.diff> [...]
# Behaviour-preserving variants written by hand or by a sub-agent: each patch is applied to a fresh scratch
# worktree of /repo HEAD, must compile, and every property's quick check is run against the copy.
# Any `violation:` / UNDECIDED line is a false alarm of the rule set (the patch does not change behaviour).
set -u
export GOFLAGS=-mod=mod GOPROXY=off GOSUMDB=off GOTOOLCHAIN=local GOWORK=off
rc=0
for P in "$@"; do
  P=$(readlink -f "$P")
  W=$(mktemp -d /tmp/vben.XXXXXX); rmdir "$W"
  git -C /repo worktree add --detach -q "$W" HEAD || exit 3
  ( cd "$W" && git apply "$P" ) || { echo "BENIGN $P: patch does not apply"; git -C /repo worktree remove --force "$W"; continue; }
  ( cd "$W" && go build ./... ) || { echo "BENIGN $P: does not compile"; git -C /repo worktree remove --force "$W"; continue; }
  OUT=$(/verif/bin/verifcheck -prop all -repo "$W" -verif /verif -no-evidence 2>&1 | grep -E "^(violation|UNDECIDED|CHECKER|undecided)" | sed "s#$W/##g" | cut -c1-400)
  if [ -n "$OUT" ]; then echo "BENIGN $P: ALARM"; echo "$OUT"; rc=1; else echo "BENIGN $P: silent"; fi
  git -C /repo worktree remove --force "$W" >/dev/null 2>&1; rm -rf "$W"
done
exit $rc
