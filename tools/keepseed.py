#!/usr/bin/env python3
"""usage: tools/keepseed.py <seed-src-dir> <seed-id> <property> [<expected violation key substring>]
Verifies a seeded change with tools/seedcheck.sh (fresh scratch worktree: applies, compiles, suite passes with it,
demo fails with it and passes without), stores it as /verif/seeded/<seed-id>/ (patch.diff, zz_seed_demo_test.go,
meta.json incl. what was run and which checks fire) and, when a check catches it, registers it as a self-validation
variant of the thorough tier in /verif/mutants/<property>.json."""
import json, os, subprocess, sys, shutil, re
src, sid, prop = sys.argv[1:4]
expect = sys.argv[4] if len(sys.argv) > 4 else None
V = "/verif"
out = subprocess.run([V + "/tools/seedcheck.sh", src], capture_output=True, text=True, errors="replace").stdout
print(out)
m = re.search(r"demo-without-change=(\S+) demo-with-change=(\S+) suite-with-change=(\S+)", out)
if not m:
    sys.exit("seedcheck failed")
base, mut, suite = m.groups()
ok = (base == "pass" and mut == "fail" and suite == "pass")
viol = [l for l in out.splitlines() if l.startswith("violation:")]
dst = os.path.join(V, "seeded", sid)
os.makedirs(dst, exist_ok=True)
shutil.copy(os.path.join(src, "patch.diff"), dst)
if os.path.exists(os.path.join(src, "zz_seed_demo_test.go")):
    shutil.copy(os.path.join(src, "zz_seed_demo_test.go"), os.path.join(dst, "zz_seed_demo_test.go.txt"))
meta = {}
try:
    meta = json.load(open(os.path.join(src, "meta.json")))
except Exception as e:
    meta = {"note": "agent meta.json unreadable: %s" % e}
meta["seed_id"] = sid
meta["property"] = prop
meta["confirmed_by_main_session"] = {
    "how": "tools/seedcheck.sh: fresh `git worktree` of /repo HEAD under /tmp, `git apply patch.diff`, `go build ./...`, `go test -vet=off -count=1 ./...` (suite, demo removed), `go test -run TestSeedDemo .` with and without the patch; then `verifcheck -prop all -repo <worktree>`",
    "demo_passes_without_change": base == "pass",
    "demo_fails_with_change": mut == "fail",
    "suite_passes_with_change": suite == "pass",
    "kept": ok,
}
keys = []
for l in viol:
    k = l.split()[1]
    keys.append(k)
meta["checks_that_fire"] = keys
meta["caught"] = bool(keys)
json.dump(meta, open(os.path.join(dst, "meta.json"), "w"), indent=1)
print("kept" if ok else "NOT VALID (not kept as valid seed)", dst, "caught by:", keys)
if ok and keys:
    exp = expect or keys[0]
    mf = os.path.join(V, "mutants", prop + ".json")
    ms = json.load(open(mf)) if os.path.exists(mf) else []
    ms = [x for x in ms if x["id"] != sid]
    ms.append({"id": sid, "source": "seeded/" + sid, "patch": "seeded/%s/patch.diff" % sid, "expect": exp,
               "note": meta.get("summary", "")[:200]})
    os.makedirs(os.path.dirname(mf), exist_ok=True)
    json.dump(ms, open(mf, "w"), indent=1)
    print("registered in", mf, "expect", exp)
