#!/bin/sh
# usage: tools/mut.sh <property> <python-expr-or-patch-file> ...
# Applies a variant to a scratch copy of /repo (never to /repo), runs the property's quick check
# against the copy without writing evidence, and removes the copy.
#   tools/mut.sh C03 -e 'file.go' 'old text' 'new text'
#   tools/mut.sh C03 -p some.patch
set -u
PROP=$1; shift
D=$(mktemp -d /tmp/vmut.XXXXXX)
trap 'rm -rf "$D"' EXIT
rsync -a --exclude .git /repo/ "$D/"
while [ $# -gt 0 ]; do
  case "$1" in
    -e) F=$2; OLD=$3; NEW=$4; shift 4
        python3 - "$D/$F" "$OLD" "$NEW" <<'PY' || exit 3
import sys
f,old,new=sys.argv[1:4]
s=open(f).read()
if s.count(old)==0:
    print("MUT: pattern not found in",f); sys.exit(3)
s=s.replace(old,new,1)
open(f,'w').write(s)
PY
        ;;
    -p) (cd "$D" && patch -p1 -s < "$2") || exit 3; shift 2;;
    *) echo "bad arg $1"; exit 3;;
  esac
done
export GOFLAGS=-mod=mod GOPROXY=off GOSUMDB=off GOTOOLCHAIN=local GOWORK=off
(cd "$D" && go build ./... ) || { echo "MUT: variant does not compile"; exit 4; }
/verif/bin/verifcheck -prop "$PROP" -repo "$D" -verif /verif -no-evidence | grep -v "^  rule" | sed "s#$D/##g"
